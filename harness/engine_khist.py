"""engine: K-hist (C11, C15, C18; position-in-history part of C03): sequences of operations on one DAG instance
(call / setup / executor with selections, caches, re-runs / deepcopy / failing calls) on the real library,
compared per operation with History.v (which nodes execute) and with a freshly built DAG (values)."""
import collections
import copy
import hashlib
import json
import os
import pickle
import random

from . import coqrun, kgraph, tz
from .tz import tawazi


# ------------------------------------------------------------------------------ generation
def gen_hist_case(rng, max_n=6, max_ops=7):
    case = kgraph.gen_graph_case(rng, max_n=max_n)
    case.pop("idx_edges", None)
    case.pop("idx_out", None)
    n = case["n"]
    nparams = rng.randint(0, 2)
    case["params"] = [dict(default=None if rng.random() < 0.5 else rng.randrange(100)) for _ in range(nparams)]
    # required parameters first (python signature rule)
    case["params"].sort(key=lambda p: p["default"] is not None)
    case["param_use"] = {}
    for i in range(n):
        if i not in case["setup"] and nparams and rng.random() < 0.4:
            case["param_use"][str(i)] = sorted(rng.sample(range(nparams), rng.randint(1, nparams)))
    edges = [tuple(e) for e in case["edges"]]
    roots = [j for j in range(n) if not any(b == j for a, b in edges)]
    ops = []
    execs = []
    for _ in range(rng.randint(2, max_ops)):
        r = rng.random()
        nreq = sum(1 for p in case["params"] if p["default"] is None)
        args = [rng.randrange(1000) for _ in range(rng.randint(nreq, nparams))]
        if r < 0.3:
            ops.append(dict(kind="call", args=args, run_debug=rng.random() < 0.3))
        elif r < 0.45:
            t = sorted(rng.sample(range(n), rng.randint(0, min(2, n)))) if rng.random() < 0.6 else None
            ops.append(dict(kind="setup", target=t, exclude=(sorted(rng.sample(range(n), 1)) if rng.random() < 0.2 else None), root=None))
            sr_ = random.Random(rng.getrandbits(30))
            if sr_.random() < 0.3:
                ops[-1]["run_debug"] = True  # setup() while RUN_DEBUG_NODES is on: still only setup nodes
            if sr_.random() < 0.3:
                ops[-1]["via_executor"] = True  # executor(target, exclude).setup() instead of dag.setup(target, exclude)
        elif r < 0.8:
            sel = dict(target=None, exclude=None, root=None)
            mode = rng.random()
            cache_deps_of = None
            if mode < 0.35:
                sel["target"] = sorted(rng.sample(range(n), rng.randint(1, min(2, n))))
            elif mode < 0.45 and roots:
                sel["root"] = sorted(rng.sample(roots, 1))
            xr = random.Random(rng.getrandbits(30))
            if mode < 0.45 and xr.random() < 0.4:
                # an exclusion next to the targets / roots (it may make the selection impossible: ValueError).
                # C12's hypothesis: an excluded node lies in the graph left by the root step
                pool_ = list(range(n))
                if sel["root"]:
                    pool_ = sorted(kgraph.descendants(n, edges, sel["root"]))
                if pool_:
                    sel["exclude"] = sorted(xr.sample(pool_, 1))
            elif mode >= 0.6 and xr.random() < 0.15:
                sel["exclude"] = sorted(xr.sample(range(n), 1))
            if mode < 0.45:
                pass
            elif mode < 0.6:
                cache_deps_of = sorted(rng.sample(range(n), rng.randint(1, min(2, n))))
                far = [(a_, b_) for a_, m_ in edges for m2_, b_ in edges if m_ == m2_]
                if far and rng.random() < 0.5:
                    cache_deps_of = sorted(rng.choice(far))  # a -> m -> b: the file will hold m but neither a nor b
            op = dict(kind="exec", args=args, run_debug=rng.random() < 0.3, cache_in=rng.random() < 0.5, from_cache=None, cache_deps_of=cache_deps_of, again=rng.random() < 0.3, **sel)
            if execs and rng.random() < 0.5:
                src = rng.choice(execs)
                op["from_cache"] = src
                srcop = ops[src]
                if rng.random() < 0.7:  # restart with the same selection
                    for k in ("target", "exclude", "root", "cache_deps_of", "run_debug"):
                        op[k] = srcop[k]
                    # ... and the same arguments, or fewer (an omitted defaulted argument is then read from the file)
                    ra = rng.random()
                    if ra < 0.5:
                        op["args"] = list(srcop["args"])
                    elif ra < 0.8:
                        op["args"] = list(srcop["args"])[:rng.randint(nreq, len(srcop["args"]))] if len(srcop["args"]) >= nreq else list(srcop["args"])
                # the restart may write its own results back into the file it started from
                if op["cache_in"] and rng.random() < 0.4:
                    op["same_file"] = True
            if rng.random() < 0.2 and cache_deps_of is None and op["from_cache"] is None:
                op.update(defer=True, cache_in=False, again=False)
            if op["cache_in"]:
                execs.append(len(ops))
            ops.append(op)
        elif r < 0.9:
            via = rng.choice(["call", "exec", "exec", "postproc"])
            if via == "postproc" and not args:
                via = "exec"
            # the run repeated on the same executor object uses OTHER arguments: a stale result is then visible
            ops.append(dict(kind="fail", args=args, node=rng.randrange(n), via=via, again=True, again_args=[a + 1 for a in args]))
        elif r < 0.94:
            ops.append(dict(kind="deepcopy"))
        elif r < 0.97:
            # a configuration reload in the middle of the history (changes schedules, never selections or values)
            ops.append(dict(kind="config", config={"nodes": {"@%d" % rng.randrange(n): {"priority": rng.randint(-3, 5), "is_sequential": rng.random() < 0.5}}, "max_concurrency": rng.randint(1, 3)}))
        elif r >= 0.988:
            # an executor asked for an alias that names nothing: ValueError, whatever happened on the instance before
            ops.append(dict(kind="badalias", how=rng.choice(["target", "exclude", "root"])))
        else:
            # a DAG composed from the instance, and run: must leave the instance alone
            outs = sorted(rng.sample(range(n), rng.randint(1, min(2, n))))
            cand = [i for i in range(n) if i not in outs]
            ops.append(dict(kind="compose", ins=sorted(rng.sample(cand, rng.randint(0, min(1, len(cand))))), outs=outs))
    case["ops"] = ops
    crng = random.Random(rng.getrandbits(30))
    if n >= 2 and crng.random() < 0.25:
        # the id of a node is a PREFIX of the id of one of the nodes before it (n3 / n30): ids are names, never patterns
        i_ = crng.randrange(1, n)
        j_ = crng.randrange(i_)
        code = list(range(n))
        code[j_] = i_ * 10
        case["code"] = code
    case["final_args"] = [rng.randrange(1000) for _ in range(rng.randint(sum(1 for p in case["params"] if p["default"] is None), nparams))]
    case["maxc"] = rng.randint(1, 3)
    case["none_ret"] = [i for i in range(n) if rng.random() < 0.15]
    case["is_async"] = rng.random() < 0.3
    br = random.Random(rng.getrandbits(30))
    if edges and br.random() < 0.12:
        # the describing function indexes one result out of range: every run that reaches the consumer fails while the
        # scheduler resolves its arguments (not inside a node function)
        j_, i_ = br.choice(edges)
        if i_ not in case["setup"] and j_ not in case.get("none_ret", []):
            case["bad_index"] = [j_, i_]
    return case


class Poison(int):
    """an argument value that cannot be pickled: makes the caching step after a successful run fail"""

    def __reduce_ex__(self, protocol):
        raise pickle.PicklingError("this value cannot be pickled")


def _chain_case(n, edges, ops, **kw):
    c = dict(kind="graph", n=n, edges=edges, prios=[0] * n, debug=[], setup=[], tags={}, consts={}, queries=[], params=[], param_use={},
             ops=ops, final_args=[], maxc=1, none_ret=[], is_async=False)
    c.update(kw)
    return c


def _ex(**kw):
    op = dict(kind="exec", args=[], run_debug=False, cache_in=False, from_cache=None, cache_deps_of=None, again=False, target=None, exclude=None, root=None)
    op.update(kw)
    return op


CORPUS = [
    # a restricted run sets up only the setup node registered SECOND; it is stored, the later call runs the first one only
    _chain_case(3, [[0, 2], [1, 2]], [_ex(target=[1]), dict(kind="call", args=[], run_debug=False), dict(kind="call", args=[], run_debug=False)], setup=[0, 1]),
    _chain_case(4, [[1, 2], [0, 3], [2, 3]], [dict(kind="setup", target=[2], exclude=None, root=None), dict(kind="call", args=[], run_debug=False)], setup=[0, 1, 2], is_async=True),
    # a setup node that has run is reconfigured (priority only): it keeps its stored result
    _chain_case(3, [[0, 1], [1, 2]], [dict(kind="call", args=[], run_debug=False), dict(kind="config", config={"nodes": {"@0": {"priority": 4}}}), dict(kind="call", args=[], run_debug=False),
                                     dict(kind="config", config={"nodes": {"@1": {"priority": 2, "is_sequential": True}}}), dict(kind="setup", target=None, exclude=None, root=None), _ex()], setup=[0, 1]),
    _chain_case(3, [[0, 2], [1, 2]], [dict(kind="setup", target=None, exclude=None, root=None), dict(kind="config", config={"nodes": {"@0": {"priority": 1}}}), dict(kind="call", args=[], run_debug=False)], setup=[0], is_async=True),
    # an unknown alias after the instance has been called / set up
    _chain_case(3, [[0, 1], [1, 2]], [dict(kind="call", args=[], run_debug=False), dict(kind="badalias", how="target"), dict(kind="badalias", how="root"), dict(kind="badalias", how="exclude")], tags={"0": "t0"}),
    _chain_case(3, [[0, 1], [1, 2]], [dict(kind="setup", target=None, exclude=None, root=None), dict(kind="badalias", how="target")], setup=[0], is_async=True),
    # the id of the listed node (n2) is a prefix of the id of its dependency (n20)
    _chain_case(3, [[0, 1], [1, 2]], [_ex(cache_deps_of=[2], cache_in=True), _ex(cache_deps_of=[2], from_cache=0)], code=[0, 20, 2]),
    _chain_case(3, [[0, 1], [1, 2]], [_ex(target=[2], cache_in=True), _ex(cache_in=True), _ex(from_cache=0), _ex(from_cache=1)], code=[10, 1, 100]),
    # the cache of `cache_deps_of=[a, b]` with a an ancestor of b through m is not closed under ancestors:
    # the restart must not run m again
    _chain_case(4, [[0, 1], [1, 2], [2, 3]], [_ex(cache_deps_of=[1, 3], cache_in=True), _ex(cache_deps_of=[1, 3], from_cache=0)]),
    _chain_case(5, [[0, 1], [1, 2], [2, 3], [0, 4]], [_ex(cache_deps_of=[1, 3], cache_in=True), _ex(cache_deps_of=[1, 3], from_cache=0), _ex(from_cache=0)], is_async=True),
    # a restart that writes its results back into the file it started from; the next restart runs nothing
    _chain_case(3, [[0, 1], [1, 2]], [_ex(target=[0], cache_in=True), _ex(from_cache=0, cache_in=True, same_file=True), _ex(from_cache=1)]),
    _chain_case(3, [[0, 1], [1, 2]], [_ex(target=[0], cache_in=True), _ex(from_cache=0, cache_in=True, same_file=True), _ex(from_cache=1)], is_async=True),
    # a defaulted parameter: the caching run overrides it, the restart omits it (its value is read from the file)
    _chain_case(3, [[0, 1], [1, 2]], [_ex(cache_deps_of=[1], cache_in=True, args=[5]), _ex(cache_deps_of=[1], from_cache=0, args=[])],
                params=[dict(default=1)], param_use={"0": [0], "1": [0]}),
    _chain_case(3, [[0, 1]], [_ex(target=[1], cache_in=True, args=[7, 8]), _ex(target=[1, 2], from_cache=0, args=[7])],
                params=[dict(default=1), dict(default=2)], param_use={"1": [0, 1], "2": [1]}),
    # an executor created BEFORE the instance is set up and run AFTER: the setup node does not run again
    _chain_case(2, [[0, 1]], [_ex(target=[1], defer=True), dict(kind="setup", target=None, exclude=None, root=None)], setup=[0]),
    _chain_case(3, [[0, 2], [1, 2]], [_ex(defer=True), dict(kind="call", args=[], run_debug=False), _ex(target=[2], defer=True), dict(kind="setup", target=[1], exclude=None, root=None)], setup=[0, 1], is_async=True),
    # a restart from a cache file runs a setup node the file does not hold: it is set up for the instance
    _chain_case(3, [[0, 2], [1, 2]], [_ex(target=[1], cache_in=True), _ex(from_cache=0), dict(kind="call", args=[], run_debug=False), _ex()], setup=[0]),
    _chain_case(3, [[0, 2], [1, 2]], [_ex(target=[1], cache_in=True), _ex(from_cache=0), dict(kind="call", args=[], run_debug=False)], setup=[0], is_async=True),
    # setup() with RUN_DEBUG_NODES on and a debug node fed only by setup nodes
    _chain_case(3, [[0, 1], [1, 2]], [dict(kind="setup", target=None, exclude=None, root=None, run_debug=True), dict(kind="call", args=[], run_debug=True), dict(kind="call", args=[], run_debug=True)], setup=[0], debug=[1, 2]),
    # setting up through an executor, both flavours
    _chain_case(3, [[0, 2], [1, 2]], [dict(kind="setup", target=[0], exclude=None, root=None, via_executor=True), dict(kind="setup", target=None, exclude=None, root=None, via_executor=True), dict(kind="call", args=[], run_debug=False)], setup=[0, 1], is_async=True),
    _chain_case(3, [[0, 2], [1, 2]], [dict(kind="setup", target=None, exclude=None, root=None, via_executor=True), dict(kind="call", args=[], run_debug=False)], setup=[0, 1]),
    # a partial setup followed by a full one: the full one runs what is left
    _chain_case(3, [[0, 2], [1, 2]], [dict(kind="setup", target=[0], exclude=None, root=None), dict(kind="setup", target=None, exclude=None, root=None), dict(kind="call", args=[], run_debug=False)], setup=[0, 1]),
    _chain_case(3, [[0, 2], [1, 2]], [dict(kind="setup", target=[1], exclude=None, root=None), dict(kind="setup", target=None, exclude=None, root=None)], setup=[0, 1], is_async=True),
    # creating an executor with targets AND exclusions (accepted or refused) leaves the DAG alone
    _chain_case(4, [[0, 1], [1, 2], [0, 3]], [_ex(target=[3], exclude=[1]), dict(kind="call", args=[], run_debug=False), _ex(target=[2], exclude=[1]), dict(kind="call", args=[], run_debug=False)]),
    # a run that fails while the scheduler resolves an argument (index out of range), then the same executor again
    _chain_case(4, [[0, 1], [1, 2], [0, 3]], [dict(kind="fail", args=[], node=3, via="exec", again=True, again_args=[]), dict(kind="call", args=[], run_debug=False)], bad_index=[1, 2]),
    # one path rewritten between two restarts
    _chain_case(3, [[0, 1], [1, 2]], [_ex(target=[1], cache_in=True), _ex(from_cache=0), _ex(cache_in=True), _ex(from_cache=2)]),
]


def build(case):
    n = case["n"]
    eset = {tuple(e) for e in case["edges"]}
    fs = []
    for i in range(n):
        kw = dict(priority=case["prios"][i])
        if i in case["debug"]:
            kw["debug"] = True
        if i in case["setup"]:
            kw["setup"] = True
        if i in case.get("none_ret", []):
            fs.append(tz.mknode(nm(i), (lambda *a, **k: None), **kw))  # a side-effect-only node: returns None
        else:
            fs.append(tz.mknode(nm(i), (lambda i: (lambda *a, **k: ("n%d" % i,) + tuple(a)))(i), **kw))
    import inspect

    def desc(*params):
        v = {}
        for i in range(n):
            bi = case.get("bad_index")
            args = [(v[j][9] if bi and bi == [j, i] else v[j]) for j in range(i) if (j, i) in eset]
            if case["consts"].get(str(i)):
                args.append(7)
            for pj in case["param_use"].get(str(i), []):
                args.append(params[pj])
            v[i] = fs[i](*args)
        return tuple(v[i] for i in range(n))

    desc.__qualname__ = "hdesc"
    desc.__name__ = "hdesc"
    desc.__signature__ = inspect.Signature([inspect.Parameter("p%d" % j, inspect.Parameter.POSITIONAL_OR_KEYWORD,
                                                               default=inspect.Parameter.empty if p["default"] is None else p["default"]) for j, p in enumerate(case["params"])])
    return tawazi.dag(desc, max_concurrency=case.get("maxc", 1), is_async=bool(case.get("is_async")))


CODE = [None]  # the node-name coding of the case being processed: node i is called "n<code[i]>" (default: "n<i>")


def use(case):
    CODE[0] = case.get("code")


def nm(i):
    c = CODE[0]
    return "n%d" % (c[i] if c else i)


def idx_of(name):
    """inverse of nm for the current case; None for ids that are not DAG nodes of the case"""
    if not (name.startswith("n") and name[1:].isdigit()):
        return None
    k = int(name[1:])
    c = CODE[0]
    if c:
        return c.index(k) if k in c else None
    return k


def names(l):
    return None if l is None else [nm(i) for i in l]


def run_op(d, thunk, fails=()):
    ctl = tz.Ctl(free_run=True, fails=set(fails))
    st = tz.run_controlled(thunk, ctl, is_async=type(d).__name__ == "AsyncDAG")
    executed = sorted(e[1] for e in ctl.trace if e[0] == "XENTER")
    counts = collections.Counter(e[1] for e in ctl.trace if e[0] == "XENTER")
    return st, executed, counts, ctl


def run_history(case, tmpdir):
    """-> list of per-operation observations, final comparison"""
    use(case)
    d = build(case)
    obs = []
    caches = {}
    cur = d
    originals = []
    def run_deferred(p):
        exo, op, inst = p
        o = dict(op=op, instance=id(inst), deferred=True)
        o["done_before"] = sorted(x for x in inst.results.keys() if x in inst.exec_nodes and inst.exec_nodes[x].setup)
        tawazi.cfg.RUN_DEBUG_NODES = bool(op.get("run_debug"))
        try:
            st, ex, cnt, ctl = run_op(inst, lambda: exo(*op["args"]))
        finally:
            tawazi.cfg.RUN_DEBUG_NODES = False
        o["status"] = st[0]
        o["value"] = st[1] if st[0] == "ok" else None
        o["error"] = None if st[0] == "ok" else "%s: %s" % (type(st[1]).__name__, str(st[1])[:150])
        o["executed"] = ex
        o["dup"] = sorted(x for x, c in cnt.items() if c > 1)
        obs.append(o)
        # the executor belongs to the instance it was created on: if that instance has been deep-copied in the
        # meantime, what this run sets up there is the original's own doing, not an effect of the copy
        for ix_, (orig_, _done) in enumerate(originals):
            if orig_ is inst:
                originals[ix_] = (orig_, sorted(x for x in inst.results.keys() if x in inst.exec_nodes and inst.exec_nodes[x].setup))

    def do_op(oi, op):
        nonlocal cur
        o = dict(op=op, instance=id(cur))
        k = op["kind"]
        done_before = sorted(x for x in cur.results.keys() if x in cur.exec_nodes and cur.exec_nodes[x].setup)
        o["done_before"] = done_before
        if k == "deepcopy":
            originals.append((cur, list(done_before)))
            cur = copy.deepcopy(cur)
            o["status"] = "ok"
            o["executed"] = []
            o["new_instance"] = id(cur)
            obs.append(o)
            return
        if k == "badalias":
            o["executed"] = []
            try:
                cur.executor(**{op["how"] + "_nodes": ["zz_names_nothing"]})
                o["status"] = "ok"
            except ValueError as e:
                o["status"] = "ValueError"
                o["error"] = str(e)[:150]
            except BaseException as e:  # noqa: BLE001
                o["status"] = "other-raise"
                o["error"] = "%s: %s" % (type(e).__name__, str(e)[:150])
            obs.append(o)
            return
        if k in ("config", "compose"):
            o["executed"] = []
            try:
                if k == "config":
                    cf = json.loads(json.dumps(op["config"]))
                    if "nodes" in cf:
                        cf["nodes"] = {(nm(int(k_[1:])) if k_.startswith("@") else k_): v_ for k_, v_ in cf["nodes"].items()}
                    cur.config_from_dict(cf)
                    o["status"] = "ok"
                else:
                    cd = cur.compose("cmp%d" % oi, [nm(i) for i in op["ins"]], [nm(i) for i in op["outs"]])
                    stc, exc_, _, _ = run_op(cd, lambda: cd(*[("in", i) for i in op["ins"]]))
                    o["status"] = "ok"
                    o["composed_status"] = stc[0]
            except ValueError as e:
                o["status"] = "ValueError"
                o["error"] = str(e)[:150]
            except BaseException as e:  # noqa: BLE001
                # compose() refusing a selection with a usage error (e.g. a setup node would come to depend on an input of
                # the composed DAG: the setup build rule) is a refusal like ValueError, not a failure
                o["status"] = "refused" if (k == "compose" and type(e).__name__ == "TawaziUsageError") else "other-raise"
                o["error"] = "%s: %s" % (type(e).__name__, str(e)[:150])
            obs.append(o)
            return
        tawazi.cfg.RUN_DEBUG_NODES = bool(op.get("run_debug"))
        try:
            if k == "call":
                st, ex, cnt, ctl = run_op(cur, lambda: cur(*op["args"]))
            elif k == "setup" and op.get("via_executor"):
                try:
                    exo = cur.executor(target_nodes=names(op["target"]), exclude_nodes=names(op["exclude"]))
                except ValueError as e:
                    o.update(status="ValueError", error=str(e)[:200], executed=[])
                    obs.append(o)
                    return
                st, ex, cnt, ctl = run_op(cur, lambda: exo.setup())
            elif k == "setup":
                st, ex, cnt, ctl = run_op(cur, lambda: cur.setup(target_nodes=names(op["target"]), exclude_nodes=names(op["exclude"]), root_nodes=names(op["root"])))
            elif k == "fail":
                fails = {nm(op["node"])}
                if op["via"] == "call":
                    st, ex, cnt, ctl = run_op(cur, lambda: cur(*op["args"]), fails)
                else:
                    post = op["via"] == "postproc"
                    try:
                        exo = cur.executor(cache_in=os.path.join(tmpdir, "p%d.pkl" % oi)) if post else cur.executor()
                    except BaseException as e:  # noqa: BLE001
                        o.update(status="ctor-raise", error="%s: %s" % (type(e).__name__, e), executed=[])
                        obs.append(o)
                        return
                    if post:
                        # every node succeeds; writing the cache file after the run fails
                        pargs = [Poison(op["args"][0])] + list(op["args"][1:])
                        st, ex, cnt, ctl = run_op(cur, lambda: exo(*pargs))
                    else:
                        st, ex, cnt, ctl = run_op(cur, lambda: exo(*op["args"]), fails)
                    if st[0] == "raise":
                        # run the same executor again, now without the failure: refused, or a complete fresh run
                        aargs = op.get("again_args", op["args"])
                        st2, ex2, cnt2, _ = run_op(cur, lambda: exo(*aargs))
                        o["again"] = dict(status=st2[0], executed=ex2, value=st2[1] if st2[0] == "ok" else "%s" % type(st2[1]).__name__)
            else:
                kw = dict(target_nodes=names(op["target"]), exclude_nodes=names(op["exclude"]), root_nodes=names(op["root"]))
                if op["cache_deps_of"] is not None:
                    kw = dict(cache_deps_of=names(op["cache_deps_of"]))
                if op["cache_in"]:
                    # (the documentation recommends, but does not require, names ending in .pkl)
                    kw["cache_in"] = os.path.join(tmpdir, "c%d.pkl" % oi if oi % 2 == 0 else "run.c%d" % oi)
                if op["from_cache"] is not None and op["from_cache"] in caches:
                    kw["from_cache"] = caches[op["from_cache"]]["path"]
                    o["cache_keys_loaded"] = list(caches[op["from_cache"]]["keys"])
                    o["cache_src_overwritten"] = bool(caches[op["from_cache"]].get("overwritten"))
                    if op.get("same_file") and op["cache_in"]:
                        kw["cache_in"] = kw["from_cache"]
                try:
                    exo = cur.executor(**kw)
                except ValueError as e:
                    o.update(status="ValueError", error=str(e)[:200], executed=[])
                    obs.append(o)
                    return
                except BaseException as e:  # noqa: BLE001
                    o.update(status="ctor-raise", error="%s: %s" % (type(e).__name__, str(e)[:200]), executed=[])
                    obs.append(o)
                    return
                dag_before = dict(cur.results)
                cache_before = None
                if "from_cache" in kw:
                    try:
                        cache_before = dict(pickle.load(open(kw["from_cache"], "rb")))
                    except BaseException:  # noqa: BLE001
                        cache_before = None
                st, ex, cnt, ctl = run_op(cur, lambda: exo(*op["args"]))
                if cache_before is None and "from_cache" not in kw:
                    cache_before = {}  # no cache file: the map is the DAG-level map with the arguments bound
                if cache_before is not None and ctl.res0s:
                    # what the scheduler was handed for this restart (checked against Cache.ksource)
                    o["start_map"] = dict(res0=dict(ctl.res0s[0]), dag=dag_before, cache=cache_before,
                                          inputs=[u.id for u in cur.input_uxns], nargs=len(op["args"]), args=list(op["args"]))
                if st[0] == "ok" and op["cache_in"]:
                    try:
                        keys = sorted(pickle.load(open(kw["cache_in"], "rb")).keys())
                    except BaseException as e:  # noqa: BLE001
                        keys = ["<unreadable: %s>" % type(e).__name__]
                    caches[oi] = dict(path=kw["cache_in"], keys=keys, value=st[1])
                    o["cache_keys_written"] = keys
                    # a file that was written again holds the later run's results: what was recorded about the
                    # earlier caching run no longer describes it
                    for oj, cj in caches.items():
                        if oj != oi and cj["path"] == kw["cache_in"]:
                            cj.update(keys=keys, overwritten=True)
                if st[0] == "ok" and op["from_cache"] is not None and op["from_cache"] in caches:
                    o["cache_src_value"] = caches[op["from_cache"]]["value"]
                if op.get("again") and st[0] == "ok":
                    st2, ex2, cnt2, _ = run_op(cur, lambda: exo(*op["args"]))
                    o["again"] = dict(status=st2[0], executed=ex2, error="%s" % type(st2[1]).__name__ if st2[0] == "raise" else None)
        finally:
            tawazi.cfg.RUN_DEBUG_NODES = False
        o["status"] = st[0]
        if k == "setup" and st[0] == "raise" and isinstance(st[1], ValueError) and not ex:
            o["status"] = "ValueError"  # setup(...) validates its selection when it is called: the refusal of a selection
        o["value"] = st[1] if st[0] == "ok" else None
        o["error"] = None if st[0] == "ok" else "%s: %s" % (type(st[1]).__name__, str(st[1])[:150])
        o["executed"] = ex
        o["dup"] = sorted(x for x, c in cnt.items() if c > 1)
        obs.append(o)
    # an executor may be CREATED at one point of the history and RUN after the next operation (a setup, a call,
    # a reconfiguration ... in between): it reads the instance's setup results when it runs
    pending = None
    for oi, op in enumerate(case["ops"]):
        if op["kind"] == "exec" and op.get("defer") and pending is None:
            kw = dict(target_nodes=names(op["target"]), exclude_nodes=names(op["exclude"]), root_nodes=names(op["root"]))
            tawazi.cfg.RUN_DEBUG_NODES = bool(op.get("run_debug"))
            try:
                pending = (cur.executor(**kw), op, cur)
            except BaseException:  # noqa: BLE001
                do_op(oi, dict(op, defer=False))
            finally:
                tawazi.cfg.RUN_DEBUG_NODES = False
            continue
        do_op(oi, op)
        if pending is not None:
            run_deferred(pending)
            pending = None
    if pending is not None:
        run_deferred(pending)
    # C15: one more call behaves as on a freshly built instance
    st, ex, cnt, ctl = run_op(cur, lambda: cur(*case["final_args"]))
    fresh = build(case)
    st_f, ex_f, _, _ = run_op(fresh, lambda: fresh(*case["final_args"]))
    final = dict(status=st[0], value=st[1] if st[0] == "ok" else None, fresh_status=st_f[0], fresh_value=st_f[1] if st_f[0] == "ok" else None,
                 error=None if st[0] == "ok" else "%s: %s" % (type(st[1]).__name__, str(st[1])[:150]))
    # the instance's own tables (priorities, compound priorities, debug / setup flags) are those of a fresh build
    try:
        tc_, tf_ = kgraph.impl_tables(cur), kgraph.impl_tables(fresh)
        has_config = any(o_["kind"] == "config" for o_ in case["ops"])
        final["tables_differ"] = [k_ for k_ in (("debug", "setup") if has_config else ("prio", "cp", "debug", "setup")) if tc_[k_] != tf_[k_]]
        if final["tables_differ"]:
            k0 = final["tables_differ"][0]
            final["tables_detail"] = "%s: %r, freshly built %r" % (k0, tc_[k0], tf_[k0])
    except BaseException as e:  # noqa: BLE001
        final["tables_differ"] = ["<unreadable: %s>" % type(e).__name__]
    # deep copies have independent setup state: what happened on a copy left the original untouched
    final["shared"] = []
    for orig, done_at_copy in originals:
        now = sorted(x for x in orig.results.keys() if x in orig.exec_nodes and orig.exec_nodes[x].setup)
        if now != done_at_copy:
            final["shared"].append((done_at_copy, now))
    return d, obs, final


# ------------------------------------------------------------------------------ model side
def opt_ids(l, ids):
    return "None" if l is None else "(Some %s)" % coqrun.nat_list([ids(nm(i)) for i in l])


def model_term(case, d, obs):
    use(case)
    t = kgraph.impl_tables(d)
    ids = coqrun.Ids(list(t["nodes"]) + [p for ps in t["deps"].values() for p in ps])
    consts = sorted(k for k in d.results.keys() if k in ids.idx and not d.exec_nodes[k].setup) if False else None
    # ids with a value at build time: read from a fresh build (the instance under test has gained setup results)
    fresh = build(case)
    const_ids = [k for k in fresh.results.keys() if k in ids.idx]
    inputs = [u.id for u in fresh.input_uxns]
    dag = "(mkdag %s %s %s %s %s %s)" % (
        coqrun.nat_list(ids.l(t["nodes"])),
        coqrun.fun_table({ids(k): ids.l(v) for k, v in t["deps"].items()}, "[]", coqrun.nat_list),
        kgraph.bool_table(t["debug"], ids), kgraph.bool_table(t["setup"], ids),
        coqrun.nat_list(ids.l(const_ids)), coqrun.nat_list(ids.l(inputs)))
    # one model history per instance lineage: a deepcopy starts a copy with the same done set -> we replay the whole prefix
    ops = []
    index = []
    lineage = None  # the instance the model follows: the original, then each deep copy in turn
    for oi, o in enumerate(obs):
        op = o["op"]
        k = op["kind"]
        if lineage is None and "instance" in o:
            lineage = o["instance"]
        ok = "true" if o["status"] == "ok" else "false"
        if k == "deepcopy":
            lineage = o["new_instance"]
            continue
        if k in ("config", "compose", "badalias"):
            continue
        if lineage is not None and o.get("instance") != lineage:
            continue  # an executor created on the original and run after the copy was taken: not this lineage
        if k == "call":
            ops.append("OCall %d %s %s" % (len(op["args"]), "true" if op["run_debug"] else "false", ok))
        elif k == "setup":
            ops.append("OSetup %s %s %s %s" % (opt_ids(op["target"], ids), opt_ids(op["exclude"], ids), opt_ids(op["root"], ids), ok))
        elif k == "fail":
            if op["via"] == "call":
                ops.append("OCall %d false %s" % (len(op["args"]), ok))
            else:
                # a run whose nodes all succeed and whose caching step fails has run the scheduler to the end
                ops.append("OExec None None None false %d [] %s" % (len(op["args"]), "true" if (op["via"] == "postproc" and o["status"] == "raise" and "Pickl" in str(o.get("error"))) else ok))
                if o.get("again") and o["again"]["status"] == "ok":
                    index.append(oi)
                    ops.append("OExec None None None false %d [] true" % len(op["args"]))
                    index.append((oi, "again"))
                    continue
        else:
            tgt = op["cache_deps_of"] if op["cache_deps_of"] is not None else op["target"]
            cache = []
            if o.get("cache_keys_loaded"):
                cache = [ids(x) for x in o["cache_keys_loaded"] if x in ids.idx]
            ops.append("OExec %s %s %s %s %d %s %s" % (opt_ids(tgt, ids), opt_ids(op["exclude"], ids) if op["cache_deps_of"] is None else "None",
                                                      opt_ids(op["root"], ids) if op["cache_deps_of"] is None else "None",
                                                      "true" if op["run_debug"] else "false", len(op["args"]), coqrun.nat_list(cache), ok))
        index.append(oi)
    return ids, "khist %s [%s]" % (dag, "; ".join(ops)), index


def decode(v, nops):
    out = []
    i = 0
    while i < len(v):
        if v[i] == 0:
            out.append(None)
            i += 1
        else:
            n = v[i + 1]
            out.append(v[i + 2:i + 2 + n])
            i += 2 + n
    return out


def run(pid, tier, seed, res, only=None):
    rng = random.Random(seed * 32452843 + 11)
    n = 250 if tier == "quick" else 3000
    tmpdir = os.path.join(coqrun.BUILD, "kh_%s" % pid)
    os.makedirs(tmpdir, exist_ok=True)
    dist = collections.Counter()
    items, where = [], []
    src_items, src_where = [], []
    cases = []
    for f in sorted(__import__("glob").glob(os.path.join(coqrun.VERIF, "corpus", "hist", "*.json"))):
        cases.append(json.load(open(f))["case"])
    cases.extend(json.loads(json.dumps(c)) for c in CORPUS)
    for _ in range(n):
        cases.append(gen_hist_case(rng, max_n=6 if tier == "quick" else 8))
    if only is not None:
        cases = list(only)
    n_hung = 0
    for ci, case in enumerate(cases):
        base = dict(engine="khist", case=case)
        try:
            d, obs, final = run_history(case, tmpdir)
        except BaseException as e:  # noqa: BLE001
            if isinstance(e, (KeyboardInterrupt, SystemExit)):
                raise
            res.notes.append("history case could not be run: %s: %s" % (type(e).__name__, str(e)[:200]))
            dist["harness_error"] += 1
            continue
        res.evaluations += 1
        hung_ = [(oi_, o_) for oi_, o_ in enumerate(obs) if o_.get("status") == "hang"] + ([("final", final)] if final.get("status") == "hang" else [])
        if hung_:
            n_hung += len(hung_)
            oi_, o_ = hung_[0]
            res.hit("C09", "monitor", "operation %s (%s) of a history did not return within the watchdog's time" % (oi_, o_.get("op", {}).get("kind", "final call") if isinstance(o_, dict) else "?"), dict(base, kind="monitor", op_index=oi_))
            if n_hung >= 3:
                res.notes.append("K-hist stopped after %d cases: %d operations hung" % (ci + 1, n_hung))
                break
        for o in obs:
            dist["op_" + o["op"]["kind"]] += 1
            dist["status_" + o["status"]] += 1
        if len(obs) >= 3 and (case["setup"] or any(o["op"]["kind"] == "exec" for o in obs)):
            res.distinct.add(hashlib.sha1(json.dumps(case, sort_keys=True).encode()).hexdigest()[:12])
        # ---- monitors on the implementation's behaviour
        # C11: a setup node is entered at most once per instance over successful operations
        seen = collections.defaultdict(set)
        for oi, o in enumerate(obs):
            inst = o["instance"]
            if o["op"]["kind"] == "deepcopy":
                seen[o["new_instance"]] = set(seen[inst])
                continue
            for x in o.get("executed", []):
                node = d.exec_nodes.get(x)
                if node is not None and node.setup:
                    if o["status"] == "ok":
                        if x in seen[inst]:
                            msg = "setup node %s executed again by operation %d (%s) on the same instance" % (x, oi, o["op"]["kind"])
                            res.hit("C11", "monitor", msg, dict(base, kind="monitor", op_index=oi))
                            res.hit("C03", "monitor", "already-set-up node entered: " + msg, dict(base, kind="monitor", op_index=oi))
                        seen[inst].add(x)
            if o.get("dup"):
                res.hit("C03", "monitor", "node(s) %s entered more than once in one operation" % o["dup"], dict(base, kind="monitor", op_index=oi))
        for oi, o in enumerate(obs):
            if o.get("leaked"):
                res.hit("C15", "monitor", "after operation %d (%s) the DAG-level results map holds results of non-setup node(s) %s" % (oi, o["op"]["kind"], o["leaked"]), dict(base, kind="monitor", op_index=oi))
                break
        for oi, o in enumerate(obs):
            if o["op"]["kind"] == "badalias" and o["status"] != "ValueError":
                res.hit("C12", "monitor", "operation %d: an executor with %s_nodes=[an alias that names nothing] must raise ValueError; it %s" % (oi, o["op"]["how"], "was accepted" if o["status"] == "ok" else "raised " + str(o.get("error"))), dict(base, kind="monitor", op_index=oi))
        for oi, o in enumerate(obs):
            if o["op"]["kind"] in ("config", "compose") and o["status"] == "other-raise":
                res.hit("C15", "monitor", "operation %d (%s) raised %s" % (oi, o["op"]["kind"], o.get("error")), dict(base, kind="monitor", op_index=oi))
        for a_, b_ in final.get("shared", []):
            res.hit("C11", "monitor", "operations on a deep copy changed the setup results of the original (%s -> %s)" % (a_, b_), dict(base, kind="monitor"))
        if final.get("tables_differ"):
            for p_ in ("C15", "C07"):
                res.hit(p_, "monitor", "after the history the instance's tables differ from those of a freshly built DAG (%s)" % final.get("tables_detail", final["tables_differ"]), dict(base, kind="monitor"))
        # C15: the final call equals the call on a fresh instance
        # (setup results are the one state a DAG keeps, C15 says so: a setup node that a ROOT-restricted run executed while
        # one of its own producers lay outside the selection has stored a result computed from None - the history then
        # differs from a fresh instance by that stored setup result only, which is not a leak of call state)
        use(case)
        eset_ = {tuple(e_) for e_ in case["edges"]}
        partial_setup = False
        for o_ in obs:
            if o_["op"].get("root") is not None and o_.get("executed"):
                have_ = set(o_["executed"]) | set(o_.get("done_before") or [])
                for x_ in o_["executed"]:
                    ix_ = idx_of(x_)
                    if ix_ is not None and ix_ in case["setup"] and any(nm(a_) not in have_ for a_, b_ in eset_ if b_ == ix_):
                        partial_setup = True
        if (final["status"], final["value"]) != (final["fresh_status"], final["fresh_value"]) and not partial_setup:
            res.hit("C15", "monitor", "after the history the call returns %r (%s), a freshly built DAG returns %r" % (final["value"], final["error"], final["fresh_value"]), dict(base, kind="monitor"))
        for oi, o in enumerate(obs):
            ag = o.get("again")
            if ag is None:
                continue
            if o["op"]["kind"] == "fail":
                # after a failed run: refused, or the complete selection from scratch with the right value
                if ag["status"] == "ok":
                    fresh = build(case)
                    # bring the fresh instance to the same setup state is not needed: values do not depend on it
                    st_f, ex_f, _, _ = run_op(fresh, lambda: fresh.executor()(*o["op"].get("again_args", o["op"]["args"])))
                    if st_f[0] != "ok" or st_f[1] != ag["value"]:
                        res.hit("C15", "monitor", "executor run again after a failed run returned %r computed from a partially consumed graph (a fresh executor returns %r); executed only %s" % (ag["value"], st_f[1], ag["executed"]),
                                dict(base, kind="monitor", op_index=oi))
            else:
                if ag["status"] == "ok":
                    res.hit("C15", "monitor", "executor ran a second time after a successful run (executed %s)" % ag["executed"], dict(base, kind="monitor", op_index=oi))
        # C18
        for oi, o in enumerate(obs):
            op = o["op"]
            if op["kind"] != "exec" or o["status"] not in ("ok", "raise"):
                continue
            if o.get("cache_keys_loaded") is not None:
                again = sorted(set(o["executed"]) & set(o["cache_keys_loaded"]))
                if again:
                    res.hit("C18", "monitor", "restart from the cache file executed node(s) %s whose result is in the file" % again, dict(base, kind="monitor", op_index=oi))
                src = case["ops"][op["from_cache"]]
                # same selection, and the same arguments or a prefix of them (omitted arguments come from the file)
                same_sel = all(src[k] == op[k] for k in ("target", "exclude", "root", "cache_deps_of", "run_debug")) and src["args"][:len(op["args"])] == op["args"]
                # (a caching run that was itself a restart may have mixed cached results with other arguments: its
                #  value is then not what a run on its own arguments computes, and says nothing about this restart)
                same_sel = same_sel and src.get("from_cache") is None
                if o["status"] == "raise" and not case.get("bad_index"):
                    # (in a bad-index history the describing function itself is erroneous: raising is expected)
                    res.hit("C18", "monitor", "restart from the cache file raised %s" % o["error"], dict(base, kind="monitor", op_index=oi))
                elif same_sel and not o.get("cache_src_overwritten") and o["value"] != o.get("cache_src_value"):
                    # position i of the returned tuple is node n_i.  A setup node that was outside the caching
                    # run's selection (None there) and has been set up on the instance since is legitimately
                    # returned with its real value ("already-computed nodes", C12/C15): not a difference.
                    a_, b_ = o["value"], o.get("cache_src_value")
                    bad_ = not (isinstance(a_, tuple) and isinstance(b_, tuple) and len(a_) == len(b_))
                    if not bad_:
                        for i_, (x_, y_) in enumerate(zip(a_, b_)):
                            if x_ != y_ and not (y_ is None and nm(i_) in o["done_before"]):
                                bad_ = True
                    if bad_:
                        res.hit("C18", "monitor", "restart from the cache file returned %r, the caching run returned %r" % (o["value"], o.get("cache_src_value")), dict(base, kind="monitor", op_index=oi))
            if o["status"] == "ok" and op["cache_in"] and "cache_keys_written" in o:
                # what the run had (loaded or computed) is what the file holds afterwards (minus cache_deps_of)
                listed = set(names(op["cache_deps_of"]) or [])
                must = (set(o["executed"]) | set(x for x in (o.get("cache_keys_loaded") or []) if not str(x).startswith("<"))) - listed
                lack = sorted(x for x in must if x not in o["cache_keys_written"])
                if lack:
                    res.hit("C18", "monitor", "the file written with cache_in lacks the results of %s, which this run computed or loaded" % lack, dict(base, kind="monitor", op_index=oi))
            if o["status"] == "ok" and op.get("from_cache") is not None and isinstance(o.get("value"), tuple) and not case.get("bad_index"):
                # results travel by reference, also through a cache file: where node k was handed the result of node j,
                # the value k returned CONTAINS the very object the run returns for j (pickle keeps aliasing inside one file)
                val_ = o["value"]
                esort_ = sorted(tuple(e_) for e_ in case["edges"])
                for j_, k_ in esort_:
                    if k_ < len(val_) and j_ < len(val_) and isinstance(val_[k_], tuple) and isinstance(val_[j_], tuple) and k_ not in case.get("none_ret", []) and j_ not in case.get("none_ret", []):
                        pos_ = 1 + sorted(a_ for a_, b_ in esort_ if b_ == k_).index(j_)
                        if pos_ < len(val_[k_]) and val_[k_][pos_] is not None and val_[k_][pos_] is not val_[j_] and val_[k_][pos_] == val_[j_] and nm(k_) in o.get("cache_keys_loaded", []) and nm(j_) in o.get("cache_keys_loaded", []):
                            res.hit("C18", "monitor", "restart (operation %d): the result of %s loaded from the cache file no longer contains THE result of %s it was computed from, but an equal copy of it" % (oi, nm(k_), nm(j_)), dict(base, kind="monitor", op_index=oi))
                            break
            if o["status"] == "ok" and op["cache_in"] and op["cache_deps_of"] is not None:
                depn = names(op["cache_deps_of"])
                keys = o.get("cache_keys_written", [])
                if any(x in keys for x in depn):
                    res.hit("C18", "monitor", "cache_deps_of=%s: the file holds the result of %s" % (depn, [x for x in depn if x in keys]), dict(base, kind="monitor", op_index=oi))
        # ---- restarts: where every entry of the map handed to the scheduler comes from (Cache.ksource)
        for oi, o in enumerate(obs):
            sm = o.get("start_map")
            if not sm:
                continue
            keys_ = sorted(set(sm["res0"]) | set(sm["dag"]) | set(sm["cache"]) | set(sm["inputs"]), key=str)
            kid = {k_: j_ for j_, k_ in enumerate(keys_)}
            src_items.append("ksource %s %s %s %d %s" % (coqrun.nat_list([kid[k_] for k_ in sm["dag"]]), coqrun.nat_list([kid[k_] for k_ in sm["cache"]]),
                                                       coqrun.nat_list([kid[k_] for k_ in sm["inputs"]]), min(sm["nargs"], len(sm["inputs"])), coqrun.nat_list(list(range(len(keys_))))))
            src_where.append((base, oi, sm, keys_))
        # ---- model
        ids, term, index = model_term(case, d, obs)
        # the model replays ONE lineage; histories with a deepcopy are compared only up to the copy
        where.append((ci, ids, index, obs, base))
        items.append(term)
    prefix = "khist_%s" % pid
    coqrun.clean_build(prefix)
    paths = coqrun.write_shards(prefix, "Graph Select History", items, per_file=40)
    results, errors = coqrun.run_shards(paths)
    coqrun.clean_build(prefix)
    if errors:
        res.hit(pid, "divergence", "coqc failed on K-hist case files: " + errors[0][2][-400:], dict(kind="coqc-error"))
    for k, (ci, ids, index, obs, base) in enumerate(where):
        use(base["case"])
        v = results.get(k)
        if v is None:
            res.hit(pid, "divergence", "no model result for a history", dict(base, kind="no-result"))
            continue
        mex = decode(v, len(index))
        copied = False
        for pos, oi in enumerate(index):
            if isinstance(oi, tuple):
                o = obs[oi[0]]
                if pos < len(mex) and mex[pos] is not None:
                    mnames = sorted(ids.names[x] for x in mex[pos])
                    if sorted(o["again"]["executed"]) != mnames:
                        res.hit("C15", "monitor", "executor run again after a failed run executed %s, its complete selection is %s (partially consumed graph)" % (sorted(o["again"]["executed"]), mnames),
                                dict(base, kind="monitor", op_index=oi[0]))
                continue
            o = obs[oi]
            if any(obs[j]["op"]["kind"] == "deepcopy" for j in range(oi)):
                copied = True
            if pos >= len(mex):
                break
            m = mex[pos]
            kind = o["op"]["kind"]
            owner = {"setup": "C11", "call": "C03", "exec": "C03", "fail": "C15"}[kind]
            if o["status"] in ("ctor-raise",):
                res.hit(owner, "divergence", "K-hist: operation %d (%s) raised %s" % (oi, kind, o.get("error")), dict(base, kind="divergence", op_index=oi))
                continue
            if m is None:
                if o["status"] != "ValueError":
                    res.hit("C12", "divergence", "K-hist: the model refuses operation %d (%s) with ValueError, the implementation: %s" % (oi, kind, o["status"]), dict(base, kind="divergence", op_index=oi))
                continue
            if o["status"] == "ValueError":
                res.hit("C12", "divergence", "K-hist: operation %d raised ValueError (%s), the model selects %s" % (oi, o.get("error"), [ids.names[x] for x in m]), dict(base, kind="divergence", op_index=oi))
                continue
            mnames = sorted(ids.names[x] for x in m)
            if o["status"] == "ok":
                if sorted(o["executed"]) != mnames:
                    msg = "operation %d (%s %s) executed %s, expected %s (instance had set up %s)" % (oi, kind, {k2: v2 for k2, v2 in o["op"].items() if k2 in ("target", "root", "cache_deps_of", "from_cache")}, sorted(o["executed"]), mnames, o["done_before"])
                    props_ = {"C03"}
                    if set(mnames) - set(o["executed"]):
                        props_.add("C09")  # returned normally while a selected node has not run
                    diffn = set(o["executed"]) ^ set(mnames)
                    if any(x in ids.idx and base["case"]["setup"] and idx_of(x) is not None and idx_of(x) in base["case"]["setup"] for x in diffn):
                        props_.add("C11")
                    if o["op"].get("from_cache") is not None or o["op"].get("cache_deps_of") is not None:
                        props_.add("C18")
                    if not o["op"].get("run_debug") and any(idx_of(x) is not None and idx_of(x) in base["case"]["debug"] for x in set(o["executed"]) - set(mnames)):
                        props_.add("C13")  # a debug node ran although RUN_DEBUG_NODES was off for this operation
                    for p in props_:
                        res.hit(p, "monitor", msg, dict(base, kind="monitor", op_index=oi))
            else:
                extra = sorted(set(o["executed"]) - set(mnames))
                if extra:
                    res.hit("C03", "monitor", "failing operation %d executed %s outside its selection %s" % (oi, extra, mnames), dict(base, kind="monitor", op_index=oi))
    if src_items:
        paths_s = coqrun.write_shards(prefix + "src", "Graph Cache", src_items, per_file=200)
        results_s, errors_s = coqrun.run_shards(paths_s)
        coqrun.clean_build(prefix + "src")
        if errors_s:
            res.hit(pid, "divergence", "coqc failed on K-hist start-map files: " + errors_s[0][2][-300:], dict(kind="coqc-error"))
        MISSING = object()
        for k_, (base, oi, sm, keys_) in enumerate(src_where):
            use(base["case"])
            v = results_s.get(k_)
            if v is None or len(v) != len(keys_):
                res.hit(pid, "divergence", "no model result for a restart's start map", dict(base, kind="no-result", op_index=oi))
                continue
            for key_, code in zip(keys_, v):
                exp = {3: lambda: sm["args"][sm["inputs"].index(key_)], 2: lambda: sm["cache"][key_], 1: lambda: sm["dag"][key_], 0: lambda: MISSING}[code]()
                got = sm["res0"].get(key_, MISSING)
                if not (got is exp or got == exp):
                    op_ = base["case"]["ops"][oi] if isinstance(oi, int) and oi < len(base["case"]["ops"]) else {}
                    restricted_ = any(op_.get(k2_) is not None for k2_ in ("target", "exclude", "root"))
                    for p_ in ("C18", "C15") + (("C12",) if restricted_ else ()):
                        res.hit(p_, "divergence", "K-hist: restart (operation %d): the scheduler was handed %r for %s, Cache.start_map reads it from %s: %r" % (
                            oi, None if got is MISSING else got, key_, {3: "the call's arguments", 2: "the cache file", 1: "the DAG-level map", 0: "nowhere"}[code], None if exp is MISSING else exp),
                            dict(base, kind="divergence", op_index=oi))
                    break
        dist["start_maps"] = len(src_where)
    res.distribution["khist"] = dict(dist)
    res.engine_info["khist"] = dict(histories=len(cases), model_evaluations=len(items) + len(src_items))
    if cases:
        res.samples.append(dict(engine="khist", case=cases[min(2, len(cases) - 1)]))
    import shutil
    shutil.rmtree(tmpdir, ignore_errors=True)
