"""K-value / K-build: describing functions over the supported fragment (positional / keyword / default /
constant arguments, indexing and unpack_to, operators, and_/or_/not_, reused functions, all return shapes,
defaulted DAG parameters, nested DAG calls with twz_active), run (a) by tawazi, (b) by plain Python
(the reference of C01), (c) by the model's denotation on the node table tawazi built."""
import inspect
import json
import random

from . import coqrun, sched_cases, tz
from .terms import OPS, App, Const, Keys, Rec, coq_term, enc
from .tz import Resource, tawazi

RESL = ["thread", "thread", "async-thread", "main-thread"]


# ------------------------------------------------------------------------------ program generation
def _a_callable():
    """a callable used as a VALUE (a truthy activation flag): never meant to be called by the library"""
    return None


DEFNAMES = ["z0", "y1", "x2", "w3"]  # defaulted parameters: declaration order is NOT the alphabetical one
PYC = {"i1": 1, "bT": True, "f1": 1.0, "i0": 0, "bF": False, "f0": 0.0, "fn": _a_callable}


def dk(key):
    """a key of a stored program as the Python object: JSON lists stand for tuple keys"""
    return tuple(key) if isinstance(key, list) else key


def gen_expr(rng, nvars, vinfo, nparams, allow_const=True):
    """an argument expression: variable (maybe indexed), parameter, or constant"""
    opts = []
    if nvars:
        opts += ["var"] * 4
    if nparams:
        opts += ["param"] * 2
    if allow_const:
        opts += ["const"]
    k = rng.choice(opts)
    if k == "var":
        i = rng.randrange(nvars)
        return var_ref(rng, i, vinfo)
    if k == "param":
        return ["param", rng.randrange(nparams)]
    if rng.random() < 0.2:
        # plain Python constants that are EQUAL but not the same value: 1, True, 1.0 / 0, False, 0.0
        return ["pyc", random.Random(rng.getrandbits(30)).choice(["i1", "bT", "f1", "i0", "bF", "f0"])]
    return ["const", rng.randrange(50), rng.random() < 0.6]


def var_ref(rng, i, vinfo):
    shape = vinfo[i]
    if shape[0] == "tuple":  # unpack_to result / sub-dag tuple: must be indexed at trace time
        return ["var", i, [rng.randrange(shape[1])]]
    if shape[0] == "idx" and rng.random() < 0.7:  # node returning a tuple, indexed through the UXN
        return ["var", i, [rng.randrange(shape[1])]]
    if shape[0] == "dict":
        return ["var", i, [rng.choice(shape[1])]]
    if shape[0] == "none":
        return ["const", 49, False]
    return ["var", i, []]


def gen_flag(rng, nvars, vinfo, nparams):
    r = rng.random()
    if r < 0.08:
        return ["nonec"]  # the Python constant None as flag
    if r < 0.3:
        return ["bool", rng.random() < 0.5]
    if r < 0.38:
        # a string as activation value: Python's truth value (non-empty = truthy), whatever it spells
        from .terms import STRS
        r3 = random.Random(rng.getrandbits(30))
        if r3.random() < 0.2:
            return ["pyc", "fn"]  # a function object as activation value: truthy, and not to be called
        return ["strc", r3.choice(STRS)]
    return gen_expr(rng, nvars, vinfo, nparams, allow_const=False) if (nvars or nparams) else ["bool", rng.random() < 0.5]


def gen_prog(rng, name="p", depth=0, max_stmts=8, fid_base=0, p_flag=0.2, p_sub=0.2, p_fail=0.0, allow_flags=True, ctr=None):
    if not allow_flags:
        p_flag = 0.0
    if ctr is None:
        ctr = [0]
    fid_base = ctr[0]
    ctr[0] += 10
    nreq = rng.randint(0, 2)
    ndef = rng.choice([0, 1, 2, 2, 3]) if depth > 0 else rng.randint(0, 2)
    params = [dict(name="a%d" % i, default=None) for i in range(nreq)] + [dict(name=DEFNAMES[i], default=("NONE" if rng.random() < (0.3 if depth > 0 else 0.12) else [rng.randrange(50), rng.random() < 0.6])) for i in range(ndef)]
    nst = rng.randint(1, max_stmts)
    stmts = []
    vinfo = []
    subs = []
    same_name_mode = False
    nfun = rng.randint(1, 4)  # functions are reused across call sites
    funs = []
    for j in range(nfun):
        kind = rng.choice(["plain"] * 5 + ["unpack", "idx", "dict"])
        f = dict(fid=fid_base + j, kind=kind, truth=rng.random() < 0.6, priority=rng.randint(-2, 2), is_sequential=rng.random() < 0.15, resource=rng.choice(RESL))
        if kind in ("unpack", "idx"):
            f["truths"] = [rng.random() < 0.6 for _ in range(rng.randint(2, 3))]
            if kind == "unpack" and random.Random(rng.getrandbits(30)).random() < 0.4:
                f["rec"] = True  # the unpacked result is a record: indexable, not a Sequence, iteration differs from indexing
        if kind == "dict":
            f["keys"] = [["k%d" % t, rng.random() < 0.6] for t in range(rng.randint(1, 3))]
            kr = random.Random(rng.getrandbits(30))
            for kt in f["keys"]:
                u_ = kr.random()
                if u_ < 0.3:
                    kt[0] = ["t", int(kt[0][1:])]  # a TUPLE key ("t", n): indexing with it is one lookup
                elif u_ < 0.42 and not any(k_[0] is None for k_ in f["keys"]):
                    kt[0] = None  # None is a key like any other: x[None]
        funs.append(f)
    for i in range(nst):
        r = rng.random()
        np_ = len(params)
        if r < p_sub and depth < 2:
            sub_active = rng.random() < max(p_flag, 0.3) and allow_flags
            # a flagged nested call whose inner nodes carry flags of their own is REFUSED at build (RuntimeError "already has
            # an activation", pinned by the repository's tests); generated now and then: the refusal, or inlining semantics
            both_ = sub_active and random.Random(rng.getrandbits(30)).random() < 0.2
            sub = gen_prog(rng, name="%s_s%d" % (name, len(subs)), depth=depth + 1, max_stmts=4, p_flag=(0.6 if both_ else p_flag), p_sub=p_sub * 0.6,
                           allow_flags=allow_flags and (not sub_active or both_), ctr=ctr)
            # where the nested describing function is defined: at module level, inside a function, or in a class
            # body; two nested DAGs may share their __name__ while living in different scopes
            scope = random.Random(rng.getrandbits(30))
            if not subs:
                same_name_mode = scope.random() < 0.3  # every nested DAG of this program is called "prep"
            sc = 0.5 if same_name_mode else scope.random()
            if sc < 0.25:
                sub["qualname"] = "mk%d.<locals>.%s" % (len(subs), sub["name"])
            elif sc < 0.4:
                sub["qualname"] = "Box%d.%s" % (len(subs), sub["name"])
            elif sc < 0.6:
                sub["qualname"] = "scope%d.<locals>.prep" % len(subs)
                sub["pyname"] = "prep"
            if sub["ret"]["shape"] == "none" or any(it[0] in ("const", "bool", "strc", "pyc") for it in ret_items(sub["ret"])) or not sub["stmts"]:
                sub["ret"] = dict(shape="single", items=[first_var(sub)])
            subs.append(sub)
            nsp = len(sub["params"])
            nrq = sum(1 for p in sub["params"] if p["default"] is None)
            nargs = nrq if rng.random() < 0.45 else rng.randint(nrq, nsp)
            sargs = [gen_expr(rng, i, vinfo, np_) for _ in range(nargs)]
            pr = random.Random(rng.getrandbits(30))
            if sub_active and nsp and sub["stmts"] and pr.random() < 0.5:
                # a flagged nested DAG that hands one of its parameters back as an output, the parameter being
                # bound to an explicit constant (or left to its default): deactivated, that output is None too
                j_ = pr.randrange(nsp)
                sub["ret"] = dict(shape="tuple", items=[first_var(sub), ["param", j_]])
                if j_ < len(sargs) or pr.random() < 0.5:
                    while len(sargs) <= j_:
                        sargs.append(gen_expr(rng, i, vinfo, np_))
                    sargs[j_] = ["const", pr.randrange(50), pr.random() < 0.6]
            st = dict(op="sub", d=len(subs) - 1, args=sargs, active=gen_flag(rng, i, vinfo, np_) if sub_active else None)
            vinfo.append(ret_shape(sub["ret"]))
        elif r < p_sub + 0.15 and i > 0:
            # comparisons and unary operators need a term as (left) operand: only top-level parameters are
            # terms for certain (inside a nested DAG a parameter may be bound to None, a tuple, ...)
            o = rng.choice(["add", "gt", "sub", "mul", "lt", "neg", "abs", "eq", "ne"] if depth == 0 else ["add", "sub", "mul"])
            n_ = 1 if o in ("neg", "abs") else 2
            args = [gen_expr(rng, i, vinfo, np_) for _ in range(n_)]
            if o in ("add", "sub", "mul"):
                # the left operand is a constant term, so that the operator is always the term's (two
                # non-term operands, e.g. two bools, would be computed by Python itself: True + True == 2)
                args[0] = ["const", rng.randrange(50), rng.random() < 0.6]
                if args[1][0] in ("const", "bool"):
                    args[1] = var_ref(rng, rng.randrange(i), vinfo)
            else:
                # comparisons / unary operators: the left operand is always a term (parameter or constant);
                # Python would otherwise dispatch to the reflected comparison with swapped operands
                termp = [j_ for j_, p_ in enumerate(params) if p_["default"] != "NONE"]  # parameters that are terms for sure
                if termp:
                    args[0] = ["param", rng.choice(termp)]
                else:
                    o = "add"
                    args = [["const", rng.randrange(50), True], var_ref(rng, rng.randrange(i), vinfo)]
            st = dict(op="oper", o=o, args=args)
            vinfo.append(("plain",))
        elif r < p_sub + 0.25 and i > 0:
            o = rng.choice(["and", "or", "not"])
            n_ = 1 if o == "not" else 2
            st = dict(op="logic", o=o, args=[gen_expr(rng, i, vinfo, np_) for _ in range(n_)])
            vinfo.append(("plain",))
        else:
            j = rng.randrange(nfun)
            nargs = rng.randint(0, 3)
            args = [gen_expr(rng, i, vinfo, np_) for _ in range(nargs)]
            kwargs = {}
            if rng.random() < 0.25:
                kwargs["kw%d" % rng.randrange(2)] = gen_expr(rng, i, vinfo, np_)
                k2 = random.Random(rng.getrandbits(30))
                if k2.random() < 0.2:
                    # a user keyword that merely STARTS with the reserved prefix is an ordinary argument
                    kwargs = {"twz_gain": list(kwargs.values())[0]}
                if i >= 2 and k2.random() < 0.5:
                    # two keyword arguments fed by two different earlier results
                    a_, b_ = k2.sample(range(i), 2)
                    kwargs = {"kw0": var_ref(k2, a_, vinfo), "kw1": var_ref(k2, b_, vinfo)}
            active = gen_flag(rng, i, vinfo, np_) if rng.random() < p_flag else None
            if active is not None and funs[j]["kind"] == "unpack":
                active = None  # a deactivated unpacked call cannot be unpacked in plain Python either
            st = dict(op="call", f=j, args=args, kwargs=kwargs, active=active)
            dup = random.Random(rng.getrandbits(30))
            prev = stmts[-1] if stmts else None
            if (dup.random() < 0.15 and prev is not None and prev["op"] == "call" and not prev["kwargs"] and prev["active"] is None
                    and prev["args"] and all(a_[0] == "var" for a_ in prev["args"])):
                # the SAME function called again with the SAME upstream results: two call sites, two nodes, two executions
                st = json.loads(json.dumps(prev))
                j = st["f"]
            vinfo.append(shape_of_fun(funs[j]))
        stmts.append(st)
    shape = rng.choice(["single", "tuple", "tuple", "list", "dict", "none"])
    nv = len(stmts)
    if shape == "none":
        ret = dict(shape="none", items=[])
    elif shape == "single":
        ret = dict(shape="single", items=[gen_expr(rng, nv, vinfo, len(params), allow_const=rng.random() < 0.2)])
    elif shape == "dict":
        ret = dict(shape="dict", items=[gen_expr(rng, nv, vinfo, len(params)) for _ in range(rng.randint(1, 3))])
        ret["keys"] = ["r%d" % t for t in range(len(ret["items"]))]
    else:
        ret = dict(shape=shape, items=[gen_expr(rng, nv, vinfo, len(params)) for _ in range(rng.randint(1, 4))])
    whole = [i for i, st in enumerate(stmts) if st["op"] == "sub" and subs[st["d"]]["ret"]["shape"] in ("tuple", "list", "dict")]
    if whole and depth == 0 and rng.random() < 0.35:
        ret = dict(shape="whole", items=[["whole", rng.choice(whole)]])
    fails = [j for j in range(nfun) if rng.random() < p_fail]
    return dict(name=name, params=params, funs=funs, stmts=stmts, ret=ret, subs=subs, fails=fails,
                maxc=rng.randint(1, 4), is_async=rng.random() < 0.3)


def shape_of_fun(f):
    if f["kind"] == "unpack":
        return ("tuple", len(f["truths"]))
    if f["kind"] == "idx":
        return ("idx", len(f["truths"]))
    if f["kind"] == "dict":
        return ("dict", [k for k, _ in f["keys"]])
    return ("plain",)


def ret_items(ret):
    return ret["items"]


def ret_shape(ret):
    if ret["shape"] == "whole":
        return ("plain",)
    if ret["shape"] in ("tuple", "list"):
        return ("tuple", len(ret["items"]))
    if ret["shape"] == "dict":
        return ("dict", list(ret["keys"]))
    if ret["shape"] == "none":
        return ("none",)
    return ("plain",)


def first_var(prog):
    """a reference to the first statement's result usable as a (non-constant) return value"""
    st = prog["stmts"][0]
    if st["op"] == "call":
        sh = shape_of_fun(prog["funs"][st["f"]])
    elif st["op"] == "sub":
        sh = ret_shape(prog["subs"][st["d"]]["ret"])
    else:
        sh = ("plain",)
    if sh[0] == "tuple":
        return ["var", 0, [0]]
    if sh[0] == "dict":
        return ["var", 0, [sh[1][0]]]
    if sh[0] == "none":
        return ["param", 0] if prog["params"] else ["var", 0, []]
    return ["var", 0, []]


def shape_is_plain(prog, i):
    st = prog["stmts"][i]
    if st["op"] == "call":
        return prog["funs"][st["f"]]["kind"] in ("plain", "idx", "dict")
    if st["op"] == "sub":
        return prog["subs"][st["d"]]["ret"]["shape"] == "single"
    return True


# ------------------------------------------------------------------------------ the body interpreter
def make_raw(f, failing, counter=None):
    fid, kind = f["fid"], f["kind"]

    def raw(*a, **k):
        if counter is not None:
            counter[fid] = counter.get(fid, 0) + 1
        if failing:
            raise tz.NodeBoom("f%d" % fid)
        args = tuple(a) + tuple(k[n] for n in sorted(k))
        if kind in ("unpack", "idx"):
            tup = tuple(App(fid, t, (Const(i, True),) + args) for i, t in enumerate(f["truths"]))
            return Rec(tup) if f.get("rec") else tup
        if kind == "dict":
            return {dk(key): App(fid, t, (Const(Keys.K(key), True),) + args) for key, t in f["keys"]}
        return App(fid, f["truth"], args)

    raw.__qualname__ = "f%d" % fid
    raw.__name__ = "f%d" % fid
    return raw


# global key numbering shared by the node functions and the encoders of one case
class _K:
    cur = None

    @staticmethod
    def K(key):
        return _K.cur(key)


Keys.K = staticmethod(_K.K)


def body(prog, F, S, L, recorder=None, override=None):
    """the describing function's body as a Python closure; F: callables per function, S: per sub-dag, L: logic ops"""

    def ev(e, env, params):
        if e[0] == "var":
            v = env[e[1]]
            for k in e[2]:
                v = v[dk(k)]
            return v
        if e[0] == "param":
            return params[e[1]]
        if e[0] == "const":
            return Const(e[1], e[2])
        if e[0] == "nonec":
            return None
        if e[0] == "strc":
            return e[1]
        if e[0] == "pyc":
            return PYC[e[1]]
        return bool(e[1])

    def run(*params):
        env = []
        for si, st in enumerate(prog["stmts"]):
            if override is not None and si in override:
                env.append(override[si])
                continue
            if st["op"] == "call":
                kw = {k: ev(v, env, params) for k, v in st["kwargs"].items()}
                if st["active"] is not None:
                    kw["twz_active"] = ev(st["active"], env, params)
                env.append(F[st["f"]](*[ev(a, env, params) for a in st["args"]], **kw))
            elif st["op"] == "oper":
                a = [ev(x, env, params) for x in st["args"]]
                o = st["o"]
                if o == "neg":
                    env.append(-a[0])
                elif o == "abs":
                    env.append(abs(a[0]))
                elif o == "add":
                    env.append(a[0] + a[1])
                elif o == "sub":
                    env.append(a[0] - a[1])
                elif o == "mul":
                    env.append(a[0] * a[1])
                elif o == "gt":
                    env.append(a[0] > a[1])
                elif o == "lt":
                    env.append(a[0] < a[1])
                elif o == "eq":
                    env.append(a[0] == a[1])
                else:
                    env.append(a[0] != a[1])
            elif st["op"] == "logic":
                a = [ev(x, env, params) for x in st["args"]]
                env.append(L[st["o"]](*a))
            else:
                kw = {}
                if st["active"] is not None:
                    kw["twz_active"] = ev(st["active"], env, params)
                env.append(S[st["d"]](*[ev(a, env, params) for a in st["args"]], **kw))
        if recorder is not None:
            recorder[:] = list(env)
        if override is not None and "__outs__" in override:
            return [env[i] for i in override["__outs__"]]
        r = prog["ret"]
        if r["shape"] == "whole":
            return env[r["items"][0][1]]
        items = [ev(e, env, params) for e in r["items"]]
        if r["shape"] == "none":
            return None
        if r["shape"] == "single":
            return items[0]
        if r["shape"] == "tuple":
            return tuple(items)
        if r["shape"] == "list":
            return list(items)
        return dict(zip(r["keys"], items))

    run.__qualname__ = prog.get("qualname", prog["name"])
    run.__name__ = prog.get("pyname", prog["name"])
    run.__signature__ = inspect.Signature([
        inspect.Parameter(p["name"], inspect.Parameter.POSITIONAL_OR_KEYWORD,
                          default=inspect.Parameter.empty if p["default"] is None else default_value(p)) for p in prog["params"]])
    return run


def build_tawazi(prog, registry, attrs_override=None, is_async=False, counter=None, recorder=None):
    """-> DAG object; registry: exec_function qualname -> fcode string for the model"""
    F = []
    for j, f in enumerate(prog["funs"]):
        raw = make_raw(f, j in prog.get("fails", []), counter)
        kw = dict(priority=f["priority"], is_sequential=f["is_sequential"], resource=sched_cases.RES[f["resource"]])
        if attrs_override:
            kw.update(attrs_override(f))
        if f["kind"] == "unpack":
            kw["unpack_to"] = len(f["truths"])
        F.append(tz.mknode("f%d" % f["fid"], raw, **kw))
        registry["f%d" % f["fid"]] = fcode_of(f, j in prog.get("fails", []))
    S = [build_tawazi(s, registry, attrs_override, False, counter) for s in prog["subs"]]
    L = {"and": tawazi.and_, "or": tawazi.or_, "not": tawazi.not_}
    d = tawazi.dag(body(prog, F, S, L, recorder=recorder), max_concurrency=prog["maxc"], is_async=is_async)
    # the nested DAG objects, for the embedding check (K-build of nesting)
    object.__setattr__(d, "_verif_subs", [(st, S[st["d"]]) for st in prog["stmts"] if st["op"] == "sub"])
    return d


def fcode_of(f, failing):
    if failing:
        return "FFail"
    b = lambda x: "true" if x else "false"  # noqa: E731
    if f["kind"] in ("unpack", "idx"):
        return "(FTuple %d [%s])" % (f["fid"], "; ".join(b(t) for t in f["truths"]))
    if f["kind"] == "dict":
        return "(FDictOf %d [%s])" % (f["fid"], "; ".join("(%d, %s)" % (Keys.K(k), b(t)) for k, t in f["keys"]))
    return "(FApp %d %s)" % (f["fid"], b(f["truth"]))


def build_plain(prog, counter=None, override=None):
    """the reference: every decorated function replaced by its plain callable, evaluated sequentially"""

    def plain(raw, unpack):
        def call(*a, **k):
            k.pop("twz_tag", None)
            k.pop("twz_unpack_to", None)
            if "twz_active" in k:
                if not k.pop("twz_active"):
                    return None
            return raw(*a, **k)
        return call

    F = [plain(make_raw(f, j in prog.get("fails", []), counter), f["kind"] == "unpack") for j, f in enumerate(prog["funs"])]
    subs = [build_plain(s, counter) for s in prog["subs"]]

    def subcall(sub, sprog):
        ndef = sprog["params"]

        def call(*a, **k):
            if "twz_active" in k and not k.pop("twz_active"):
                return deactivated_shape(sprog["ret"])
            return sub(*a)
        return call

    S = [subcall(s, sp) for s, sp in zip(subs, prog["subs"])]
    L = {"and": lambda a, b: a and b, "or": lambda a, b: a or b, "not": lambda a: not a}
    run = body(prog, F, S, L, override=override)
    top = prog["params"]

    def with_defaults(*a):
        if len(a) > len(top):
            raise TypeError("too many arguments")
        return run(*(list(a) + [default_value(p) for p in top[len(a):]]))
    return with_defaults


def deactivated_shape(ret):
    """C10: a deactivated nested DAG: all its outputs are None"""
    n = len(ret["items"])
    if ret["shape"] == "single":
        return None
    if ret["shape"] == "tuple":
        return tuple([None] * n)
    if ret["shape"] == "list":
        return [None] * n
    if ret["shape"] == "dict":
        return {k: None for k in ret["keys"]}
    return None


def default_value(p):
    return None if p["default"] == "NONE" else Const(*p["default"])


def gen_args(rng, prog):
    nreq = sum(1 for p in prog["params"] if p["default"] is None)
    n = rng.randint(nreq, len(prog["params"]))
    args = [Const(60 + i, rng.random() < 0.6) for i in range(n)]
    # an explicit None for a defaulted parameter is a value like any other (it is not "omitted")
    r2 = random.Random(rng.getrandbits(30))
    # (not for a parameter that is an operand of an operator statement: `None == t` dispatches to the reflected
    # operator of t, which the term domain does not model)
    operands = {e[1] for st in prog["stmts"] if st["op"] == "oper" for e in st["args"] if e[0] == "param"}
    for i in range(nreq, n):
        if r2.random() < 0.12 and i not in operands:
            args[i] = None
    return args


# ------------------------------------------------------------------------------ model side
def node_fcode(xn, registry):
    cls = type(xn).__name__
    if cls == "ArgExecNode":
        return "FMissing"
    if cls == "ReturnExecNode":
        return "FMissing"
    qn = getattr(xn.exec_function, "__qualname__", "")
    if qn in registry:
        return registry[qn]
    if qn.endswith("<lambda>"):
        return "FIdent"
    base = qn.split(".")[-1]
    if base in ("and_", "or_", "not_"):
        return {"and_": "FAnd", "or_": "FOr", "not_": "FNot"}[base]
    if base.startswith("_") and base[1:] in OPS:
        return "(FOp %d)" % OPS[base[1:]]
    return None


def ref_coq(uxn, ids, keys):
    return "(mkref %d %s)" % (ids(uxn.id), coqrun.nat_list([keys(k) for k in uxn.key]))


def table_coq(d, ids, keys, registry):
    """the node table of the DAG tawazi built -> Coq list (nat * nspec); None if some function is unknown"""
    rows = []
    for nid, xn in d.exec_nodes.items():
        fc = node_fcode(xn, registry)
        if fc is None:
            return None, "unknown function %r of node %s" % (getattr(xn.exec_function, "__qualname__", None), nid)
        args = list(xn.args) + [u for k, u in xn.kwargs.items() if k not in ("twz_tag", "twz_active", "twz_unpack_to")]
        act = "None" if xn.active is None else "(Some %s)" % ref_coq(xn.active, ids, keys)
        rows.append("(%d, mknspec [%s] %s %s)" % (ids(nid), "; ".join(ref_coq(u, ids, keys) for u in args), act, fc))
    return "[" + "; ".join(rows) + "]", None


def all_ids(d):
    names = set(d.exec_nodes.keys())
    for xn in d.exec_nodes.values():
        for u in xn.dependencies:
            names.add(u.id)
    return names


def res0_coq(results, ids, keys):
    items = []
    for k, v in results.items():
        if k in ids.idx:
            items.append("(%d, %s)" % (ids(k), coq_term(v, keys)))
    return "[" + "; ".join(items) + "]"


def ret_refs(d):
    r = d.return_uxns
    if r is None:
        return []
    if isinstance(r, dict):
        return list(r.values())
    if isinstance(r, (list, tuple)):
        return list(r)
    return [r]
