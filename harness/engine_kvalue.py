"""engine: K-value (C01, C10, C20; values for C02/C12): tawazi vs plain Python vs the model's denotation."""
import collections
import hashlib
import json
import random

from . import coqrun, ksched, kvalue, sched_cases, tz
from .terms import Keys, coq_term, enc, same
from .tz import tawazi


def has_flags(prog):
    return any(st.get("active") is not None for st in prog["stmts"]) or any(has_flags(s) for s in prog["subs"])


def same_dag_twice(prog):
    """does some describing function of the program call one nested DAG at two call sites? (known refusal F12)"""
    ds = [st["d"] for st in prog["stmts"] if st["op"] == "sub"]
    return len(ds) != len(set(ds)) or any(same_dag_twice(s_) for s_ in prog["subs"])


def has_subs(prog):
    return any(st["op"] == "sub" for st in prog["stmts"])


def has_sub_flag(prog):
    return any(st["op"] == "sub" and st.get("active") is not None for st in prog["stmts"]) or any(has_sub_flag(s) for s in prog["subs"])


def strip_flags(prog):
    p = json.loads(json.dumps(prog))

    def rec(q):
        for st in q["stmts"]:
            if "active" in st:
                st["active"] = None
        for s in q["subs"]:
            rec(s)
    rec(p)
    return p


def outcome(thunk):
    try:
        return ("ok", thunk())
    except BaseException as e:  # noqa: BLE001
        if isinstance(e, (KeyboardInterrupt, SystemExit)):
            raise
        return ("raise", e)


def run_prog(prog, args, rng, controlled=True, is_async=False, config=None):
    """-> dict(impl=(status,val), ref=(status,val), counters, ctl, dag, registry, keys) ; build errors as impl=('build-raise', e)"""
    from . import terms as _terms
    del _terms.COPIED[:]
    r_ = _run_prog(prog, args, rng, controlled, is_async, config)
    r_["copied"] = list(_terms.COPIED)
    return r_


def _run_prog(prog, args, rng, controlled=True, is_async=False, config=None):
    keys = Keys()
    kvalue._K.cur = keys
    registry = {}
    cimpl, cref = {}, {}
    recorder = []
    ref_f = kvalue.build_plain(prog, cref)
    ref = outcome(lambda: ref_f(*args))
    try:
        d = kvalue.build_tawazi(prog, registry, is_async=is_async, counter=cimpl, recorder=recorder)
    except BaseException as e:  # noqa: BLE001
        return dict(impl=("build-raise", e), ref=ref, cimpl=cimpl, cref=cref, ctl=None, dag=None, registry=registry, keys=keys)
    if config is not None:
        try:
            config(d)
        except BaseException as e:  # noqa: BLE001
            return dict(impl=("config-raise", e), ref=ref, cimpl=cimpl, cref=cref, ctl=None, dag=d, registry=registry, keys=keys)
    fails = set()
    ctl = tz.Ctl(rng=rng if controlled else None, free_run=not controlled, fails=fails)
    if is_async:
        st = tz.run_controlled(lambda: d(*args), ctl, is_async=True)
    else:
        st = tz.run_controlled(lambda: d(*args), ctl)
    return dict(impl=st, ref=ref, cimpl=cimpl, cref=cref, ctl=ctl, dag=d, registry=registry, keys=keys, recorder=recorder)


def compare(r):
    """-> None if the DAG call agrees with the plain function, else a description"""
    (si, vi), (sr, vr) = r["impl"], r["ref"]
    if si == "hang":
        return "call did not return"
    if si in ("build-raise", "config-raise"):
        return "building the DAG raised %s: %s" % (type(vi).__name__, str(vi)[:160])
    if si == "ok" and sr == "ok":
        if not same(vi, vr):
            return "DAG returned %r, the plain function returns %r" % (vi, vr)
        if r["cimpl"] != r["cref"]:
            return "function entry counts differ: DAG %s, plain function %s" % (dict(sorted(r["cimpl"].items())), dict(sorted(r["cref"].items())))
        return None
    if si == "raise" and sr == "raise":
        return None
    if sr == "raise" and tz.failing_node_of(vr) is None:
        # the plain body itself is erroneous Python (indexing the None of a deactivated call, eagerly, even
        # in dead code): there is no reference value to compare with; tawazi reads lazily
        return None
    if si == "raise":
        return "DAG raised %s: %s; the plain function returns %r" % (type(vi).__name__, str(vi)[:120], vr)
    return "DAG returned %r; the plain function raises %s" % (vi, type(vr).__name__)


def f13_signature(prog, r):
    (si, vi) = r["impl"]
    return bool(si == "raise" and has_sub_flag(prog) and "NoneType" in str(vi) + str(getattr(vi, "__cause__", "")) and r["ref"][0] == "ok")


def model_items(prog, r, with_labels=True):
    """Coq terms for this run: kvalue on the node table the implementation built (+ kvrun on the labels)"""
    d, ctl, keys = r["dag"], r["ctl"], r["keys"]
    if d is None or ctl is None or not ctl.cfgs:
        return None
    cfg = ctl.cfgs[0]
    ids = coqrun.Ids(kvalue.all_ids(d) | set(cfg["nodes"]))
    specs, err = kvalue.table_coq(d, ids, keys, r["registry"])
    if specs is None:
        return dict(error=err)
    cfgc = coqrun.sched_cfg_coq(cfg, ids)
    res0 = kvalue.res0_coq(ctl.res0s[0], ids, keys)
    rets = "[" + "; ".join(kvalue.ref_coq(u, ids, keys) for u in kvalue.ret_refs(d)) + "]"
    out = dict(ids=ids, kvalue="kvalue %s %s %s %s" % (specs, cfgc, res0, rets))
    # nested DAG calls: the inner DAG (parameters bound) is embedded in this table through the id prefix
    out["embeds"] = []
    for st, ch in getattr(d, "_verif_subs", []):
        ids2 = coqrun.Ids(set(ids.names) | kvalue.all_ids(ch) | set(ch.graph_ids.nodes))
        specs1, err1 = kvalue.table_coq(ch, ids2, keys, r["registry"])
        specs2, err2 = kvalue.table_coq(d, ids2, keys, r["registry"])
        if specs1 is None or specs2 is None:
            continue
        pref = ch.qualname + "."
        inner_ids = sorted(kvalue.all_ids(ch) | set(ch.graph_ids.nodes))
        if any((pref + x) not in ids2.idx for x in inner_ids if x in ch.exec_nodes):
            out["embeds"].append(dict(error="spliced id missing in the outer table: %s" % [pref + x for x in inner_ids if x in ch.exec_nodes and (pref + x) not in ids2.idx][:3]))
            continue
        rho = "[" + "; ".join("(%d, %d)" % (ids2(x), ids2(pref + x)) for x in inner_ids if (pref + x) in ids2.idx) + "]"
        bound = [u.id for u in ch.input_uxns]
        res1 = {k2: v2 for k2, v2 in ch.results.items() if k2 not in bound}
        cfg1 = dict(nodes=sorted(ch.graph_ids.nodes), deps={i: sorted({u.id for u in ch.exec_nodes[i].dependencies}) for i in ch.graph_ids.nodes},
                    pre=sorted(i for i in ch.graph_ids.nodes if i in res1), maxc=1, cp={i: 0 for i in ch.graph_ids.nodes},
                    seq={i: False for i in ch.graph_ids.nodes}, res={i: "thread" for i in ch.graph_ids.nodes})
        c1 = coqrun.sched_cfg_coq(cfg1, ids2)
        c2 = coqrun.sched_cfg_coq(cfg, ids2)
        r2 = kvalue.res0_coq(ctl.res0s[0], ids2, keys)
        a_ = "embed_check %s %s %s %s %s %s %s %s" % (specs1, specs2, c1, c2, kvalue.res0_coq(res1, ids2, keys), r2, rho, coqrun.nat_list([ids2(x) for x in bound]))
        b_ = "all_none_check %s %s %s %s %s" % (specs2, c2, r2, rho, coqrun.nat_list([ids2(x) for x in ch.graph_ids.nodes if not ch.exec_nodes[x].setup]))
        out["embeds"].append(dict(a=a_, b=b_, flagged=st.get("active") is not None, ids=ids2, sub=ch.qualname))
    if with_labels:
        segs = sched_cases.segments(list(ctl.trace), ctl)
        if segs:
            try:
                labels, end = sched_cases.to_labels(segs[0]["evs"])
                labs = "[" + "; ".join(coqrun.label_pair(l, o, ids)[0] for l, o in labels) + "]"
                out["kvrun"] = "kvrun %s %s %s %s" % (specs, cfgc, res0, labs)
                out["end"] = end
            except sched_cases.Unparsable:
                pass
    return out


def canonical_embed(prog, r, args):
    """K-build for a describing function without nested calls: the program's OWN table (statement i is node
    s_i, parameters p_j, one constant holder per constant occurrence) must be embedded in the table tawazi
    built, through the map statement -> the id tawazi gave its node.  -> Coq term or None"""
    d, ctl, keys = r["dag"], r["ctl"], r["keys"]
    rec = r.get("recorder")
    if d is None or ctl is None or not ctl.cfgs or rec is None or any(st["op"] == "sub" for st in prog["stmts"]):
        return None
    from .engine_kcompose import stmt_id
    sids = [stmt_id(o) for o in rec]
    if len(sids) != len(prog["stmts"]) or any(s is None or s not in d.exec_nodes for s in sids):
        return None
    names1 = ["s%d" % i for i in range(len(sids))] + ["p%d" % j for j in range(len(prog["params"]))]
    rho = {}
    for i, s in enumerate(sids):
        rho["s%d" % i] = s
    for j, u in enumerate(d.input_uxns):
        rho["p%d" % j] = u.id
    res1 = {}
    for j, p in enumerate(prog["params"]):
        if j < len(args):
            res1["p%d" % j] = args[j]
        elif p["default"] is not None:
            res1["p%d" % j] = kvalue.default_value(p)
    rows = []
    deps1 = {}

    def ref_of(expr, i, slot, impl_uxn):
        if expr[0] == "var":
            return ("s%d" % expr[1], list(expr[2]))
        if expr[0] == "param":
            return ("p%d" % expr[1], [])
        h = "k%d_%s" % (i, slot)
        names1.append(h)
        res1[h] = kvalue.Const(expr[1], expr[2]) if expr[0] == "const" else (None if expr[0] == "nonec" else (expr[1] if expr[0] == "strc" else (kvalue.PYC[expr[1]] if expr[0] == "pyc" else bool(expr[1]))))
        if impl_uxn is not None:
            rho[h] = impl_uxn.id
        return (h, [])

    for i, st in enumerate(prog["stmts"]):
        xn = d.exec_nodes[sids[i]]
        iargs = list(xn.args)
        ikw = {k.split(".")[-1]: u for k, u in xn.kwargs.items()}
        refs = []
        if st["op"] == "call":
            f = prog["funs"][st["f"]]
            fc = kvalue.fcode_of(f, st["f"] in prog.get("fails", []))
            for pos, ex in enumerate(st["args"]):
                refs.append(ref_of(ex, i, "a%d" % pos, iargs[pos] if pos < len(iargs) else None))
            for name, ex in st["kwargs"].items():
                refs.append(ref_of(ex, i, "k" + name, ikw.get(name)))
            act = ref_of(st["active"], i, "f", xn.active) if st.get("active") is not None else None
        elif st["op"] == "oper":
            fc = "(FOp %d)" % kvalue.OPS[st["o"]]
            for pos, ex in enumerate(st["args"]):
                refs.append(ref_of(ex, i, "a%d" % pos, iargs[pos] if pos < len(iargs) else None))
            act = None
        else:
            fc = {"and": "FAnd", "or": "FOr", "not": "FNot"}[st["o"]]
            for pos, ex in enumerate(st["args"]):
                refs.append(ref_of(ex, i, "a%d" % pos, iargs[pos] if pos < len(iargs) else None))
            act = None
        rows.append(("s%d" % i, refs, act, fc))
        deps1["s%d" % i] = sorted({x for x, _ in refs} | ({act[0]} if act else set()))
    cfg2 = ctl.cfgs[0]
    ids = coqrun.Ids(set(names1) | kvalue.all_ids(d) | set(cfg2["nodes"]))
    rr = lambda t: "(mkref %d %s)" % (ids(t[0]), coqrun.nat_list([keys(k) for k in t[1]]))  # noqa: E731
    specs1 = "[" + "; ".join("(%d, mknspec [%s] %s %s)" % (ids(nm), "; ".join(rr(x) for x in refs), "None" if act is None else "(Some %s)" % rr(act), fc) for nm, refs, act, fc in rows) + "]"
    specs2, err = kvalue.table_coq(d, ids, keys, r["registry"])
    if specs2 is None:
        return None
    nodes1 = sorted(set(names1))
    cfg1 = dict(nodes=nodes1, deps={n_: deps1.get(n_, []) for n_ in nodes1}, pre=sorted(n_ for n_ in nodes1 if n_ in res1), maxc=1,
                cp={n_: 0 for n_ in nodes1}, seq={n_: False for n_ in nodes1}, res={n_: "thread" for n_ in nodes1})
    rho_l = "[" + "; ".join("(%d, %d)" % (ids(a), ids(b)) for a, b in sorted(rho.items())) + "]"
    term = "embed_check %s %s %s %s %s %s %s []" % (specs1, specs2, coqrun.sched_cfg_coq(cfg1, ids), coqrun.sched_cfg_coq(cfg2, ids),
                                                    kvalue.res0_coq(res1, ids, keys), kvalue.res0_coq(ctl.res0s[0], ids, keys), rho_l)
    return dict(term=term, ids=ids)


def decode_kvalue(v):
    """-> (failed ids, list of per-return encodings or None for raises)"""
    nf = v[0]
    failed = v[1:1 + nf]
    rest = v[1 + nf:]
    items = []
    i = 0

    def term(j):
        t = rest[j]
        if t == 0:
            return j + 1
        if t == 1:
            return j + 3
        if t == 4:
            return j + 2
        if t == 2:
            n = rest[j + 3]
            j += 4
            for _ in range(n):
                j = term(j)
            return j
        if t == 3:
            n = rest[j + 1]
            j += 2
            for _ in range(n):
                j = term(j)
            return j
        if t == 5:
            n = rest[j + 1]
            j += 2
            for _ in range(n):
                j = term(j + 1)
            return j
        raise ValueError(t)

    while i < len(rest):
        if rest[i] == 0:
            items.append(None)
            i += 1
        else:
            j = term(i + 1)
            items.append(rest[i + 1:j])
            i = j
    return failed, items


def flatten_ret(d, value):
    r = d.return_uxns
    if r is None:
        return []
    if isinstance(r, dict):
        return [value[k] for k in r]
    if isinstance(r, (list, tuple)):
        return list(value)
    return [value]


CONFIGS = ["none", "dict", "json", "yaml"]


def make_config(rng, prog, how, tmpdir):
    """a random reconfiguration (priorities / is_sequential / max_concurrency) applied through dict / JSON / YAML"""
    if how == "none":
        return None

    def apply(d):
        nodes = {}
        for nid, xn in d.exec_nodes.items():
            if type(xn).__name__ == "LazyExecNode" and (prog.get("config_all") or rng.random() < 0.5) and ">!>" not in nid:
                nodes[nid] = dict(priority=rng.randint(-3, 3), is_sequential=rng.random() < 0.3)
        conf = dict(nodes=nodes, max_concurrency=rng.randint(1, 4))
        if how == "dict":
            d.config_from_dict(conf)
        elif how == "json":
            import os
            p = os.path.join(tmpdir, "conf.json")
            json.dump(conf, open(p, "w"))
            d.config_from_json(p)
        else:
            import os

            import yaml
            p = os.path.join(tmpdir, "conf.yaml")
            yaml.safe_dump(conf, open(p, "w"))
            d.config_from_yaml(p)
    return apply


def call_site_ids(d):
    """-> (sequence of base codes in registration order, flat [(code, k)...], base names)"""
    import re as _re
    seq_, got_, codes_ = [], [], {}
    for nid_, xn_ in d.exec_nodes.items():
        if type(xn_).__name__ in ("ArgExecNode", "ReturnExecNode"):
            continue
        mm_ = _re.match(r"^(.*)<<(\d+)>>$", nid_)
        b_, k_ = (mm_.group(1), int(mm_.group(2))) if mm_ else (nid_, 0)
        c_ = codes_.setdefault(b_, len(codes_))
        seq_.append(c_)
        got_ += [c_, k_]
    return seq_, got_, sorted(codes_, key=codes_.get)


def run_ids(pid, tier, seed, res, only=None):
    """K-ids alone (C03: one node, hence one execution, per call site): generated describing functions that
    reuse functions across call sites and nest DAGs are BUILT, and the ids tawazi gave to the recorded call
    sites are compared with Ids.kids."""
    rng = random.Random(seed * 2750159 + 7)
    n = 200 if tier == "quick" else 3000
    items, where = [], []
    nb = 0
    progs_ = ([json.loads(json.dumps(c_)) for c_ in CORPUS] + [kvalue.gen_prog(rng, max_stmts=9 if tier == "quick" else 14, p_sub=0.25, p_flag=0.1) for _ in range(n)]) if only is None else list(only)
    for prog in progs_:
        kvalue._K.cur = Keys()
        try:
            d = kvalue.build_tawazi(prog, {})
        except BaseException:  # noqa: BLE001
            nb += 1
            continue
        seq_, got_, names_ = call_site_ids(d)
        res.evaluations += 1
        # one node per CALL SITE of the describing function(s): the program's own count of calls of every function
        # (a nested DAG's calls counted once per embedding) against the nodes tawazi recorded for that function
        def sites(q, acc):
            for st_ in q["stmts"]:
                if st_["op"] == "call":
                    acc["f%d" % q["funs"][st_["f"]]["fid"]] += 1
                elif st_["op"] == "sub":
                    sites(q["subs"][st_["d"]], acc)
            return acc
        want_ = sites(prog, collections.Counter())
        have_ = collections.Counter()
        for nid_, xn_ in d.exec_nodes.items():
            qn_ = getattr(getattr(xn_, "exec_function", None), "__qualname__", "")
            if qn_ in want_ and type(xn_).__name__ not in ("ArgExecNode", "ReturnExecNode"):
                have_[qn_] += 1
        if dict(have_) != dict(want_):
            bad_ = sorted(f_ for f_ in want_ if want_[f_] != have_.get(f_, 0))
            res.hit("C03", "monitor", "the describing function calls %s at %s call site(s), the DAG has %s node(s) for it" % (bad_[0], want_[bad_[0]], have_.get(bad_[0], 0)), dict(engine="kids", prog=prog, kind="monitor"))
        # K-attrs: every recorded call of a decorated function carries the attributes the function was declared
        # with (priority, is_sequential, resource), also when it was recorded inside a nested DAG
        decl = {}

        def collect(q):
            for f_ in q["funs"]:
                decl["f%d" % f_["fid"]] = f_
            for s_ in q["subs"]:
                collect(s_)
        collect(prog)
        for nid_, xn_ in d.exec_nodes.items():
            qn_ = getattr(getattr(xn_, "exec_function", None), "__qualname__", "")
            f_ = decl.get(qn_)
            if f_ is None or type(xn_).__name__ in ("ArgExecNode", "ReturnExecNode"):
                continue
            for attr_, props_ in (("priority", ("C07", "C06")), ("is_sequential", ("C05",)), ("resource", ("C04",))):
                have = getattr(xn_, attr_)
                have = have.value if attr_ == "resource" else have
                if have != f_[attr_]:
                    for p_ in props_:
                        res.hit(p_, "monitor", "node %s records a call of a function declared with %s=%r, but carries %s=%r" % (nid_, attr_, f_[attr_], attr_, have), dict(engine="kids", prog=prog, kind="monitor"))
        if len(seq_) > len(set(seq_)):
            res.distinct.add(hashlib.sha1(json.dumps(prog, sort_keys=True).encode()).hexdigest()[:12])
        ids_all = [k for k, x in d.exec_nodes.items()]
        if len(set(ids_all)) != len(ids_all):
            res.hit("C03", "monitor", "two nodes of one DAG share an id", dict(engine="kids", prog=prog, kind="monitor"))
        where.append((prog, got_, names_))
        items.append("kids %s" % coqrun.nat_list(seq_))
    prefix = "kids_%s" % pid
    coqrun.clean_build(prefix)
    paths = coqrun.write_shards(prefix, "Ids", items, per_file=200)
    results, errors = coqrun.run_shards(paths)
    coqrun.clean_build(prefix)
    if errors:
        res.hit(pid, "divergence", "coqc failed on K-ids case files: " + errors[0][2][-300:], dict(kind="coqc-error"))
    for k, (prog, got_, names_) in enumerate(where):
        v = results.get(k)
        if v is None:
            res.hit(pid, "divergence", "no model result (K-ids)", dict(engine="kids", prog=prog, kind="no-result"))
        elif v != got_:
            res.hit("C03", "divergence", "K-ids: the ids of the recorded call sites %s are not `base` for the first use and `base<<k>>` for the (k+1)-th (functions %s; model %s)" % (got_[:30], names_[:8], v[:30]), dict(engine="kids", prog=prog, kind="divergence"))
    res.engine_info["kids"] = dict(programs=len(where), build_errors=nb)


def _fun(fid, kind="plain", **kw):
    f = dict(fid=fid, kind=kind, truth=True, priority=0, is_sequential=False, resource="thread")
    f.update(kw)
    return f


def _sub(name, params, nfun_base, stmts, ret, **kw):
    d = dict(name=name, params=params, funs=[_fun(nfun_base), _fun(nfun_base + 1)], stmts=stmts, ret=ret, subs=[], fails=[], maxc=2, is_async=False)
    d.update(kw)
    return d


def _P(n, d):
    return dict(name=n, default=d)


# fixed programs (run before the random ones): nested DAGs whose defaulted parameters are bound positionally
CORPUS = [
    # nodes flagged by two different items of one result, all reconfigured before the second run (flag AND key path survive)
    dict(name="p", params=[_P("a0", None)], funs=[_fun(0, "idx", truths=[True, False]), _fun(1)], config_all=True,
         stmts=[dict(op="call", f=0, args=[["param", 0]], kwargs={}, active=None),
                dict(op="call", f=1, args=[["param", 0]], kwargs={}, active=["var", 0, [1]]),
                dict(op="call", f=1, args=[["var", 0, [0]]], kwargs={}, active=["var", 0, [0]])],
         ret=dict(shape="tuple", items=[["var", 1, []], ["var", 2, []]]), fails=[], maxc=2, is_async=False, subs=[]),
    # a nested DAG whose single return value is an INDEXED part of an inner result (tuple item / dict entry)
    dict(name="p", params=[_P("a0", None)], funs=[_fun(0), _fun(1)],
         stmts=[dict(op="sub", d=0, args=[["param", 0]], active=None), dict(op="sub", d=1, args=[["param", 0]], active=None), dict(op="call", f=0, args=[["var", 0, []], ["var", 1, []]], kwargs={}, active=None)],
         ret=dict(shape="tuple", items=[["var", 0, []], ["var", 1, []], ["var", 2, []]]), fails=[], maxc=2, is_async=False,
         subs=[dict(name="p_s0", params=[_P("a0", None)], funs=[_fun(10, "idx", truths=[True, False]), _fun(11)], stmts=[dict(op="call", f=0, args=[["param", 0]], kwargs={}, active=None)],
                    ret=dict(shape="single", items=[["var", 0, [1]]]), subs=[], fails=[], maxc=2, is_async=False),
               dict(name="p_s1", params=[_P("a0", None)], funs=[_fun(20, "dict", keys=[["k0", True], ["k1", False]]), _fun(21)], stmts=[dict(op="call", f=0, args=[["param", 0]], kwargs={}, active=None)],
                    ret=dict(shape="single", items=[["var", 0, ["k1"]]]), subs=[], fails=[], maxc=2, is_async=False)]),
    # sub(v, on=True) whose node is flagged by `on`, embedded as sub(v, on, twz_active=gate): refused at build today; if it
    # is ever accepted the node runs only when BOTH flags are truthy
    dict(name="p", params=[_P("a0", None), _P("b0", None), _P("c0", None)], funs=[_fun(0), _fun(1)],
         stmts=[dict(op="sub", d=0, args=[["param", 0], ["param", 1]], active=["param", 2])],
         ret=dict(shape="single", items=[["var", 0, []]]), fails=[], maxc=2, is_async=False,
         subs=[_sub("p_s0", [_P("a0", None), _P("z0", [1, True])], 10, [dict(op="call", f=0, args=[["param", 0]], kwargs={}, active=["param", 1])], dict(shape="single", items=[["var", 0, []]]))]),
    # ONE nested DAG embedded at two call sites with different arguments (refused at build today: F12; if it is ever
    # accepted, every embedding has its own nodes and its own executions)
    dict(name="p", params=[_P("a0", None), _P("b0", None)], funs=[_fun(0), _fun(1)],
         stmts=[dict(op="sub", d=0, args=[["param", 0]], active=None), dict(op="sub", d=0, args=[["param", 1]], active=None)],
         ret=dict(shape="tuple", items=[["var", 0, []], ["var", 1, []]]), fails=[], maxc=2, is_async=False,
         subs=[_sub("p_s0", [_P("a0", None)], 10, [dict(op="call", f=0, args=[["param", 0]], kwargs={}, active=None)], dict(shape="single", items=[["var", 0, []]]))]),
    # the same function called three times with the same upstream result: three call sites, three executions
    dict(name="p", params=[_P("a0", None)], funs=[_fun(0), _fun(1)],
         stmts=[dict(op="call", f=0, args=[["param", 0]], kwargs={}, active=None),
                dict(op="call", f=1, args=[["var", 0, []]], kwargs={}, active=None),
                dict(op="call", f=1, args=[["var", 0, []]], kwargs={}, active=None),
                dict(op="call", f=1, args=[["var", 0, []]], kwargs={}, active=None)],
         ret=dict(shape="tuple", items=[["var", 1, []], ["var", 2, []], ["var", 3, []]]), fails=[], maxc=2, is_async=False, subs=[]),
    # a dict result indexed with the key None; an unpacked record (indexable, not a Sequence, iterates differently)
    dict(name="p", params=[_P("a0", None)], funs=[_fun(0, "dict", keys=[[None, True], ["k1", False]]), _fun(1), _fun(2, "unpack", truths=[True, False], rec=True)],
         stmts=[dict(op="call", f=0, args=[["param", 0]], kwargs={}, active=None),
                dict(op="call", f=1, args=[["var", 0, [None]]], kwargs={"kw0": ["var", 0, ["k1"]]}, active=None),
                dict(op="call", f=2, args=[["var", 1, []]], kwargs={}, active=None),
                dict(op="call", f=1, args=[["var", 2, [0]], ["var", 2, [1]]], kwargs={}, active=["var", 0, [None]])],
         ret=dict(shape="tuple", items=[["var", 1, []], ["var", 2, [0]], ["var", 2, [1]], ["var", 3, []]]), fails=[], maxc=2, is_async=False, subs=[]),
    # inside a nested DAG a node takes an INDEXED / unpacked result by keyword (and the same positionally)
    dict(name="p", params=[_P("a0", None)], funs=[_fun(0), _fun(1)],
         stmts=[dict(op="sub", d=0, args=[["param", 0]], active=None)],
         ret=dict(shape="tuple", items=[["var", 0, [0]], ["var", 0, [1]]]), fails=[], maxc=2, is_async=False,
         subs=[dict(name="p_s0", params=[_P("a0", None)], funs=[_fun(10, "idx", truths=[True, False]), _fun(11), _fun(12, "dict", keys=[["k0", True], [["t", 1], False]])],
                    stmts=[dict(op="call", f=0, args=[["param", 0]], kwargs={}, active=None),
                           dict(op="call", f=2, args=[["param", 0]], kwargs={}, active=None),
                           dict(op="call", f=1, args=[["var", 0, [0]]], kwargs={"kw0": ["var", 0, [1]], "kw1": ["var", 1, ["k0"]]}, active=None),
                           dict(op="call", f=1, args=[], kwargs={"kw0": ["var", 1, [["t", 1]]]}, active=None)],
                    ret=dict(shape="tuple", items=[["var", 2, []], ["var", 3, []]]), subs=[], fails=[], maxc=2, is_async=False)]),
    # inner(x, y=10) called with a CONSTANT first argument and the default omitted
    dict(name="p", params=[], funs=[_fun(0), _fun(1)],
         stmts=[dict(op="sub", d=0, args=[["const", 5, True]], active=None)],
         ret=dict(shape="single", items=[["var", 0, []]]), fails=[], maxc=2, is_async=False,
         subs=[_sub("p_s0", [_P("a0", None), _P("z0", [10, True]), _P("y1", [11, False])], 10,
                    [dict(op="call", f=0, args=[["param", 0], ["param", 1], ["param", 2]], kwargs={}, active=None)],
                    dict(shape="single", items=[["var", 0, []]]))]),
    # inner(x, y=10, z=100) called as inner(a): y and z keep THEIR defaults
    dict(name="p", params=[_P("a0", None)], funs=[_fun(0), _fun(1)],
         stmts=[dict(op="sub", d=0, args=[["param", 0]], active=None), dict(op="call", f=0, args=[["var", 0, [0]], ["var", 0, [1]]], kwargs={}, active=None)],
         ret=dict(shape="tuple", items=[["var", 0, [0]], ["var", 0, [1]], ["var", 1, []]]), fails=[], maxc=2, is_async=False,
         subs=[_sub("p_s0", [_P("a0", None), _P("z0", [10, True]), _P("y1", [100, False])], 10,
                    [dict(op="call", f=0, args=[["param", 0], ["param", 1], ["param", 2]], kwargs={}, active=None), dict(op="call", f=1, args=[["param", 2], ["param", 1]], kwargs={}, active=None)],
                    dict(shape="tuple", items=[["var", 0, []], ["var", 1, []]]))]),
    # inner(x, w, y=1, z=2, t=3) called with three arguments: z and t keep theirs; at depth 2 through a middle DAG
    dict(name="p", params=[_P("a0", None), _P("d0", [7, True])], funs=[_fun(0), _fun(1)],
         stmts=[dict(op="call", f=0, args=[["param", 0]], kwargs={}, active=None), dict(op="sub", d=0, args=[["var", 0, []], ["param", 1], ["const", 5, True]], active=None)],
         ret=dict(shape="list", items=[["var", 1, [0]], ["var", 1, [1]]]), fails=[], maxc=3, is_async=True,
         subs=[_sub("p_s0", [_P("a0", None), _P("a1", None), _P("z0", [1, True]), _P("y1", [2, False]), _P("x2", [3, True])], 10,
                    [dict(op="call", f=0, args=[["param", 0], ["param", 1], ["param", 2], ["param", 3], ["param", 4]], kwargs={}, active=None),
                     dict(op="call", f=1, args=[["param", 4], ["param", 3]], kwargs={"kw0": ["param", 2]}, active=None)],
                    dict(shape="tuple", items=[["var", 0, []], ["var", 1, []]]), qualname="mk0.<locals>.p_s0")]),
]


def run(pid, tier, seed, res, p_sub=None, p_flag=None, only=None):
    import os
    rng = random.Random(seed * 15485863 + 3)
    n = {"C20": 55, "C10": 110}.get(pid, 140) if tier == "quick" else {"C20": 800, "C10": 1500}.get(pid, 2500)
    focus = dict(C01=dict(p_sub=0.15, p_flag=0.2), C10=dict(p_sub=0.2, p_flag=0.55), C20=dict(p_sub=0.5, p_flag=0.2), C17=dict(p_sub=0.15, p_flag=0.2), C02=dict(p_sub=0.1, p_flag=0.2))[pid if pid in ("C01", "C10", "C20", "C17", "C02") else "C01"]
    tmpdir = os.path.join(coqrun.BUILD, "kv_%s" % pid)
    os.makedirs(tmpdir, exist_ok=True)
    items, where = [], []
    dist = collections.Counter()
    progs = []
    corpus = sorted(__import__("glob").glob(os.path.join(coqrun.VERIF, "corpus", "value", "*.json")))
    for f in corpus:
        progs.append(json.load(open(f))["prog"])
    progs.extend(json.loads(json.dumps(c_)) for c_ in CORPUS)
    for _ in range(n):
        progs.append(kvalue.gen_prog(rng, max_stmts=8 if tier == "quick" else 14, p_sub=focus["p_sub"], p_flag=focus["p_flag"]))
    fixed_args = None
    if only is not None:
        progs = [o["prog"] for o in only]
        fixed_args = [[None if a == [0] else kvalue.Const(a[1], bool(a[2])) for a in o["args"]] for o in only]
    for pi, prog in enumerate(progs):
        argsets = [kvalue.gen_args(rng, prog) for _ in range(2)] if fixed_args is None else [fixed_args[pi], fixed_args[pi]]
        for ai, args in enumerate(argsets):
            how = rng.choice(CONFIGS) if ai == 1 else "none"
            if ai == 1 and prog.get("config_all"):
                how = "dict"  # this program is reconfigured for certain, every node of it
            config_how = how
            is_async = rng.random() < 0.35
            r = run_prog(prog, args, random.Random(rng.random()), controlled=rng.random() < 0.7, is_async=is_async, config=make_config(rng, prog, how, tmpdir))
            res.evaluations += 1
            dist["stmts=%d" % min(len(prog["stmts"]), 9)] += 1
            dist["config=" + how] += 1
            dist["async" if is_async else "sync"] += 1
            if has_subs(prog):
                dist["nested"] += 1
            if has_flags(prog):
                dist["flags"] += 1
            dist["impl=" + r["impl"][0]] += 1
            dist["ref=" + r["ref"][0]] += 1
            if len(prog["stmts"]) >= 2:
                res.distinct.add(hashlib.sha1(json.dumps([prog, [enc(a, Keys()) for a in args]], sort_keys=True).encode()).hexdigest()[:12])
            base = dict(engine="kvalue", prog=prog, args=[enc(a, Keys()) for a in args], config=how, is_async=is_async)
            if r.get("copied"):
                for p_ in ["C01"] + (["C20"] if has_subs(prog) else []):
                    res.hit(p_, "monitor", "value(s) %s were deep-copied on their way through the DAG: a node (or the caller) then holds a different object than in the plain function, where arguments travel by reference" % (r["copied"][:3],), dict(base, kind="monitor"))
            msg = compare(r)
            if msg is not None and r["impl"][0] == "build-raise" and isinstance(r["impl"][1], RuntimeError) and "already has an activation" in str(r["impl"][1]):
                # the documented refusal of `sub(..., twz_active=g)` when a node inside sub carries a flag of its own
                dist["refused_flag_on_flagged_inner_node"] += 1
                msg = None
            if (msg is not None and r["impl"][0] == "build-raise" and isinstance(r["impl"][1], KeyError) and ">!>twz_active" in str(r["impl"][1])
                    and "already occupied" in str(r["impl"][1]) and has_sub_flag(prog)):
                # the same unsupported combination (a flagged nested call whose inner DAG carries flags), refused with a KeyError on
                # the id of a flag holder when the inner flag sits on a deeper nested call with a constant flag
                dist["refused_flag_on_flagged_inner_call"] += 1
                msg = None
            if msg is not None:
                props_ = ["C01"]
                if has_subs(prog):
                    props_.append("C20")
                if has_flags(prog):
                    # does it still fail without any flag?  then it is not an activation problem
                    r2 = run_prog(strip_flags(prog), args, random.Random(1), controlled=False)
                    if compare(r2) is None:
                        props_.append("C10")
                        if not has_sub_flag(prog) and "C20" in props_:
                            props_.remove("C20")
                if is_async:
                    r3 = run_prog(prog, args, random.Random(1), controlled=False, is_async=False)
                    if compare(r3) is None:
                        props_.append("C17")
                sig = dict(f13=True) if f13_signature(prog, r) else {}
                if r["impl"][0] == "build-raise":
                    txt = "%s: %s" % (type(r["impl"][1]).__name__, r["impl"][1])
                    if "ReturnExecNode.__init__() got an unexpected keyword argument" in txt and has_subs(prog):
                        sig = dict(f10=True)
                    elif "is already occupied" in txt and has_subs(prog) and same_dag_twice(prog):
                        # F12 proper: one and the same inner DAG object embedded twice in one outer DAG
                        sig = dict(f12=True)
                for p in props_:
                    res.hit(p, "monitor", msg, dict(base, kind="monitor", signature=sig))
            if r["ctl"] is not None and r["ctl"].cfgs and r["impl"][0] in ("ok", "raise"):
                # the independent monitors of the scheduler properties on this run too (values received,
                # entry counts, ordering, bounds): the describing functions here have keyword arguments,
                # indexing and nesting, which the K-sched cases do not
                tr = list(r["ctl"].trace)
                full, curf = [], None
                for ev_ in tr:
                    if ev_[0] == "BEGIN":
                        curf = []
                        full.append(curf)
                    elif curf is not None:
                        curf.append(ev_)
                try:
                    segs_ = sched_cases.segments(tr, r["ctl"])
                    if segs_ and full:
                        labs_, end_ = sched_cases.to_labels(segs_[0]["evs"])
                        for prop_, msg_ in sched_cases.monitors(segs_[0]["cfg"], full[0], labs_, end_):
                            res.hit(prop_, "monitor", msg_, dict(base, kind="monitor"))
                except sched_cases.Unparsable:
                    pass
            if r["ctl"] is not None and r["ctl"].broken:
                res.hit(pid, "divergence", "controller could not drive the run: " + r["ctl"].broken, dict(base, kind="controller"))
            m = model_items(prog, r)
            if m is None:
                continue
            if "error" in m:
                res.hit(pid, "divergence", "node table not expressible in the model: " + m["error"], dict(base, kind="table"))
                continue
            where.append(("kvalue", pi, ai, r, m, base))
            items.append(m["kvalue"])
            # call-site ids: first use `base`, (k+1)-th use `base<<k>>`, in registration order (Ids.v)
            if ai == 0:
                seq_, got_, names_ = call_site_ids(r["dag"])
                where.append(("ids", pi, ai, r, dict(expect=got_, names=names_), base))
                items.append("kids %s" % coqrun.nat_list(seq_))
            # argument binding: what the scheduler was handed vs Args.bind on the DAG-level map
            try:
                d_ = r["dag"]
                ids_ = m["ids"]
                res0_ = r["ctl"].res0s[0]
                show_ = sorted(k_ for k_ in set(res0_.keys()) | set(d_.results.keys()) if k_ in ids_.idx)
                inputs_ = [u.id for u in d_.input_uxns]
                if all(i_ in ids_.idx for i_ in inputs_):
                    bterm = "kbind %s %s [%s] %s" % (kvalue.res0_coq(dict(d_.results), ids_, r["keys"]), coqrun.nat_list(ids_.l(inputs_)),
                                                    "; ".join(coq_term(a_, r["keys"]) for a_ in args), coqrun.nat_list(ids_.l(show_)))
                    expect_ = [1]
                    for k_ in show_:
                        expect_ += ([1] + enc(res0_[k_], r["keys"])) if k_ in res0_ else [0]
                    where.append(("bind", pi, ai, r, dict(expect=expect_, show=show_), base))
                    items.append(bterm)
                    if ai == 0:
                        # one argument more than the DAG has parameters: TypeError, in the model and in the implementation
                        many_ = list(args) + [kvalue.Const(7, True)] * (len(inputs_) - len(args) + 1)
                        st_ = tz.run_controlled(lambda: d_(*many_), tz.Ctl(free_run=True), is_async=is_async)
                        if not (st_[0] == "raise" and isinstance(st_[1], TypeError)):
                            for p_ in ("C01", "C14"):
                                res.hit(p_, "monitor", "a call with %d arguments of a DAG with %d parameters gave %r instead of raising TypeError" % (len(many_), len(inputs_), st_), dict(base, kind="monitor"))
                        if inputs_ and args:
                            # keyword arguments are refused
                            kwn_ = prog["params"][0]["name"]
                            st_ = tz.run_controlled(lambda: d_(**{kwn_: args[0]}), tz.Ctl(free_run=True), is_async=is_async)
                            if not (st_[0] == "raise" and type(st_[1]).__name__ == "TawaziUsageError"):
                                res.hit("C01", "monitor", "a call with a keyword argument gave %r instead of TawaziUsageError" % (st_,), dict(base, kind="monitor"))
                        where.append(("bind", pi, ai, r, dict(expect=[0], show=["<too many arguments>"]), base))
                        items.append("kbind %s %s [%s] []" % (kvalue.res0_coq(dict(d_.results), ids_, r["keys"]), coqrun.nat_list(ids_.l(inputs_)), "; ".join(coq_term(a_, r["keys"]) for a_ in many_)))
            except BaseException as e_:  # noqa: BLE001
                res.notes.append("argument binding not expressible: %s: %s" % (type(e_).__name__, str(e_)[:100]))
            if "kvrun" in m:
                where.append(("kvrun", pi, ai, r, m, base))
                items.append(m["kvrun"])
            if r["impl"][0] == "ok" and config_how == "none":
                ce = canonical_embed(prog, r, args)
                if ce is not None:
                    where.append(("canon", pi, ai, r, ce, base))
                    items.append(ce["term"])
            if r["impl"][0] == "ok":
                for em in m.get("embeds", []):
                    if "error" in em:
                        res.hit("C20", "divergence", "K-build: " + em["error"], dict(base, kind="divergence"))
                        continue
                    where.append(("embedA", pi, ai, r, em, base))
                    items.append(em["a"])
                    where.append(("embedB", pi, ai, r, em, base))
                    items.append(em["b"])
    prefix = "kvalue_%s" % pid
    coqrun.clean_build(prefix)
    paths = coqrun.write_shards(prefix, "Graph Sched Dataflow Terms IsoCheck Args ArgsCheck Ids", items, per_file=16)
    import time as _t
    _t0 = _t.time()
    results, errors = coqrun.run_shards(paths)
    res.engine_info["kvalue_coqc_s"] = round(_t.time() - _t0, 1)
    if not os.environ.get("VERIF_KEEP_BUILD"):
        coqrun.clean_build(prefix)
    if errors:
        res.hit(pid, "divergence", "coqc failed on K-value case files: " + errors[0][2][-400:], dict(kind="coqc-error"))
    for k, (kind, pi, ai, r, m, base) in enumerate(where):
        v = results.get(k)
        prog = progs[pi]
        if v is None:
            res.hit(pid, "divergence", "no model result (%s)" % kind, dict(base, kind="no-result"))
            continue
        (si, vi) = r["impl"]
        props_ = ["C01", "C02"] + (["C10"] if has_flags(prog) else []) + (["C20"] if has_subs(prog) else [])
        if kind == "ids":
            if v != m["expect"]:
                for p in ("C03", "C01"):
                    res.hit(p, "divergence", "K-ids: the ids of the recorded call sites %s are not `base` for the first use and `base<<k>>` for the (k+1)-th (functions %s; model %s)" % (m["expect"][:30], m["names"][:8], v[:30]), dict(base, kind="divergence"))
            continue
        if kind == "bind":
            if v != m["expect"]:
                # (C02: what a node reading a parameter receives IS this map's entry)
                for p in ["C01", "C15", "C02"] + (["C10"] if has_flags(prog) else []) + (["C20"] if has_subs(prog) else []):
                    res.hit(p, "divergence", "K-bind: the results map handed to the scheduler differs from Args.bind (copy of the DAG-level map with the i-th argument overriding the i-th input): ids %s, implementation %s, model %s" % (m["show"], m["expect"][:40], v[:40]),
                            dict(base, kind="divergence"))
            continue
        if kind == "canon":
            res.traces_validated += 1
            if v:
                codes = [(v[i], m["ids"].names[v[i + 1]]) for i in range(0, len(v), 2)][:4]
                # (a missing / different argument is also C02's business: the node does not receive the return value
                #  of a dependency the describing function wrote)
                for p in ["C01"] + (["C10"] if has_flags(prog) else []) + (["C02"] if any(c_[0] == 3 for c_ in codes) else []):
                    res.hit(p, "divergence", "K-build: the describing function's own table is not embedded in the table tawazi built (codes %s; 1 node missing, 2 function, 3 arguments / key paths, 4 flag, 5 constant or parameter value, 6 absent id)" % codes,
                            dict(base, kind="divergence", codes=codes))
            continue
        if kind == "embedA":
            m["_a"] = v
            continue
        if kind == "embedB":
            a_codes = m.get("_a")
            if a_codes is None:
                continue
            res.traces_validated += 1
            ok_active = a_codes == []
            ok_off = m["flagged"] and v == [] and all(a_codes[i] == 4 for i in range(0, len(a_codes), 2))
            if not (ok_active or ok_off):
                codes = [(a_codes[i], m["ids"].names[a_codes[i + 1]]) for i in range(0, len(a_codes), 2)][:4]
                for p in (["C20"] + (["C10"] if m["flagged"] else [])):
                    res.hit(p, "divergence", "K-build: the nested DAG %s is neither embedded in the outer table with its parameters bound (codes %s; 1 node missing, 2 function, 3 arguments, 4 flag, 5 constant / default / setup value, 6 absent id) nor entirely None" % (m["sub"], codes),
                            dict(base, kind="divergence", codes=codes))
            continue
        if kind == "kvrun":
            res.traces_validated += 1
            if v[0] != 1:
                if m.get("end") is not None and m["end"][0] == "raise" and m["end"][1] is None:
                    continue  # non-node exception: reported by the value comparison
                for p in props_:
                    res.hit(p, "divergence", "K-value: the valued scheduler model rejects the observed run (flag truthiness / returned-vs-raised / control flow)", dict(base, kind="divergence"))
            elif v[1] != 1:
                for p in props_:
                    res.hit(p, "divergence", "K-value: a value stored by the accepted run differs from the denotation", dict(base, kind="divergence"))
            continue
        failed, mitems = decode_kvalue(v)
        if si == "ok":
            flat = flatten_ret(r["dag"], vi)
            keys = r["keys"]
            mine = [enc(x, keys) for x in flat]
            if mitems != mine:
                for p in props_:
                    res.hit(p, "divergence", "K-value: implementation returned %r, denotation of the node table it built gives %s (failed nodes %s)" % (vi, mitems, failed), dict(base, kind="divergence"))
        elif si == "raise":
            if not failed and all(x is not None for x in mitems):
                for p in props_:
                    res.hit(p, "divergence", "K-value: implementation raised %s: %s; the denotation of its node table is defined" % (type(vi).__name__, str(vi)[:100]), dict(base, kind="divergence"))
    res.distribution["kvalue"] = dict(dist)
    res.engine_info["kvalue"] = dict(programs=len(progs), runs=res.evaluations, model_evaluations=len(items))
    if progs:
        res.samples.append(dict(engine="kvalue", prog=progs[min(3, len(progs) - 1)]))
    try:
        import shutil
        shutil.rmtree(tmpdir, ignore_errors=True)
    except OSError:
        pass
