"""Scheduler-level cases: generation, building the real DAG, running it under the controller,
turning the observed trace into the model's labels, and the independent monitors."""
import itertools
import random

from . import tz
from .tz import H, Resource, tawazi

RES = {"thread": Resource.thread, "async-thread": Resource.async_thread, "main-thread": Resource.main_thread}


# ------------------------------------------------------------------------------ generation
def gen_case(rng, max_n=8, p_fail=0.08, p_flag=0.2, mode_mix=True):
    n = rng.randint(1, max_n)
    pe = rng.choice([0.15, 0.3, 0.35, 0.5, 0.7])
    edges = sorted((i, j) for j in range(n) for i in range(j) if rng.random() < pe)
    resw = rng.choice([["thread"] * 4, ["thread", "thread", "async-thread", "main-thread"],
                       ["async-thread"] * 3 + ["thread"], ["thread", "async-thread", "main-thread"]])
    pseq = rng.choice([0.0, 0.15, 0.25, 0.5])
    attrs = [dict(priority=rng.randint(-3, 3), is_sequential=rng.random() < pseq, resource=rng.choice(resw))
             for _ in range(n)]
    flags = {}
    for i in range(n):
        if rng.random() < p_flag:
            opts = [["const", True], ["const", False]]
            if i > 0:
                opts += [["node", rng.randrange(i)]] * 2
            flags[str(i)] = rng.choice(opts)
    rets = [rng.choice([0, 1, 2]) for _ in range(n)]
    fails = [i for i in range(n) if rng.random() < p_fail]
    idx_flags = n >= 3 and rng.random() < 0.25
    if idx_flags:
        # two nodes take their flags from DIFFERENT items of one producer's result
        j = rng.randrange(n - 2)
        rets[j] = rng.choice([[1, 0], [0, 1], [1, 0], [0, 1], [1, 1], [0, 0]])
        flags.pop(str(j), None)  # the producer always runs: indexing the None of a deactivated node is the program's own error
        i1, i2 = sorted(rng.sample(range(j + 1, n), 2))
        k1 = rng.randrange(2)
        flags[str(i1)] = ["node", j, k1]
        flags[str(i2)] = ["node", j, 1 - k1]
    reconf = rng.random() < 0.25
    rrng = random.Random(rng.getrandbits(32))
    case = dict(kind="sched", n=n, edges=[list(e) for e in edges], attrs=attrs, flags=flags, rets=rets,
                fails=fails, maxc=rng.randint(1, 4), is_async=rng.random() < 0.3, mode="call", profile=rng.random() < 0.15)
    if mode_mix:
        r = rng.random()
        if r < 0.25 and n >= 2:
            case["mode"] = "exec"
            ids = list(range(n))
            case["target"] = sorted(rng.sample(ids, rng.randint(1, min(3, n)))) if rng.random() < 0.7 else None
            # exclude only nodes that are not ancestors-or-self of a target (else ValueError at build: covered by K-graph)
            case["exclude"] = None
            case["root"] = None
        elif r < 0.4:
            # some nodes are setup nodes (only allowed to depend on setup nodes / constants)
            # setup nodes depend on setup nodes only (roots, chains, diamonds of setup nodes)
            srng = random.Random(rng.getrandbits(30))
            eset0 = set(map(tuple, edges))
            st_ = []
            for i in range(n):
                preds_ = [p for p in range(n) if (p, i) in eset0]
                if all(p in st_ for p in preds_) and (str(i) not in flags or flags[str(i)][0] == "const") and srng.random() < (0.5 if not preds_ else 0.7):
                    st_.append(i)
            case["setup"] = st_
            case["mode"] = rng.choice(["call", "setup_then_call"])
            roots_ = [i for i in st_ if not any((p, i) in eset0 for p in range(n))]
            if case["mode"] == "setup_then_call" and roots_ and srng.random() < 0.5:
                case["mode"] = "setup_root_then_call"  # dag.setup(root_nodes=<setup roots>) then a call
                case["setup_roots"] = roots_
    if reconf:
        case["reconf"] = gen_reconf(rrng, case)
    # debug nodes (only nodes all of whose dependents are debug nodes), run with RUN_DEBUG_NODES on or off
    drng = random.Random(rrng.getrandbits(32))
    if drng.random() < 0.2 and case["mode"] in ("call", "exec"):
        dbg = set()
        eset_ = [tuple(e) for e in case["edges"]]
        for j in reversed(range(n)):
            succ = [b for a, b in eset_ if a == j] + [int(k) for k, fl in flags.items() if fl[0] == "node" and fl[1] == j]
            if all(x in dbg for x in succ) and j not in (case.get("setup") or []) and drng.random() < 0.5:
                dbg.add(j)
        if case["mode"] == "exec" and case.get("target"):
            dbg -= set(case["target"])
        case["debug"] = sorted(dbg)
        case["run_debug"] = drng.random() < 0.7
        if case["mode"] == "call" and dbg and drng.random() < 0.4:
            # the same instance called twice, RUN_DEBUG_NODES switched in between
            case["mode"] = "call_toggle"
    return case


def refresh_derived(case, rng):
    """after a generated case was reshaped by hand (other edges / attributes / max_concurrency): drop the parts that
    were derived from the old shape and derive the reconfiguration history again"""
    had = "reconf" in case
    for k in ("reconf", "debug", "run_debug"):
        case.pop(k, None)
    n = case["n"]
    for k, fl in list(case["flags"].items()):
        if fl[0] == "node" and len(fl) == 3 and not (isinstance(case["rets"][fl[1]], list) and str(fl[1]) not in case["flags"]):
            del case["flags"][k]
    if had:
        case["reconf"] = gen_reconf(random.Random(rng.getrandbits(32)), case)


def gen_reconf(rng, case):
    """the DAG is built with other priorities / sequential flags / max_concurrency and brought to the case's
    attributes by two config_from_dict steps (the second one holds priority-only entries, also for nodes whose
    other attributes are not the defaults); the case's attributes are what the user has then declared."""
    attrs, n = case["attrs"], case["n"]
    pre = [dict(priority=a["priority"] if rng.random() < 0.5 else rng.randint(-3, 3),
                is_sequential=a["is_sequential"] if rng.random() < 0.5 else (not a["is_sequential"])) for a in attrs]
    pre_maxc = case["maxc"] if rng.random() < 0.4 else rng.randint(1, 4)
    by_tag = rng.random() < 0.3
    key = (lambda i: "t%d" % i) if by_tag else node_name
    s1, s2 = {}, {}
    cur = [dict(p) for p in pre]
    for i in range(n):
        e = {}
        if cur[i]["is_sequential"] != attrs[i]["is_sequential"] or rng.random() < 0.2:
            e["is_sequential"] = attrs[i]["is_sequential"]
        if cur[i]["priority"] != attrs[i]["priority"] and rng.random() < 0.5:
            e["priority"] = attrs[i]["priority"]
        if e:
            s1[key(i)] = e
            cur[i].update(e)
    for i in range(n):
        if cur[i]["priority"] != attrs[i]["priority"] or rng.random() < 0.6:
            s2[key(i)] = {"priority": attrs[i]["priority"]}
    steps = [{"nodes": s1}, {"nodes": s2}]
    how = rng.choice(["step1", "step2", "assign"])
    if how == "assign":
        steps.append({"assign_max_concurrency": case["maxc"]})
    else:
        steps[0 if how == "step1" else 1]["max_concurrency"] = case["maxc"]
    # the DAG may already have been called before it is reconfigured (nothing of that call may survive)
    return dict(pre=pre, pre_maxc=pre_maxc, by_tag=by_tag, steps=steps, call_first=rng.random() < 0.35)


CORPUS = [
    # diamond, all thread
    dict(kind="sched", n=4, edges=[[0, 1], [0, 2], [1, 3], [2, 3]], attrs=[dict(priority=p, is_sequential=False, resource="thread") for p in (1, 10, 100, 1000)],
         flags={}, rets=[1, 1, 1, 1], fails=[], maxc=2, is_async=False, mode="call"),
    # mixed thread + async + a third ready node (F9 shape)
    dict(kind="sched", n=3, edges=[], attrs=[dict(priority=3, is_sequential=False, resource="thread"), dict(priority=2, is_sequential=False, resource="async-thread"),
                                           dict(priority=1, is_sequential=False, resource="thread")], flags={}, rets=[1, 1, 1], fails=[], maxc=2, is_async=False, mode="call"),
    # a sequential node chosen while two nodes run; the first completion releases a node of greater compound priority,
    # which is then the best candidate (and is not sequential): it must start at once, the sequential node waits on
    dict(kind="sched", n=4, edges=[[0, 3]], attrs=[dict(priority=5, is_sequential=False, resource="thread"), dict(priority=4, is_sequential=False, resource="thread"),
                                                  dict(priority=3, is_sequential=True, resource="thread"), dict(priority=10, is_sequential=False, resource="thread")],
         flags={}, rets=[1] * 4, fails=[], maxc=3, is_async=False, mode="call"),
    # a root-restricted run that contains a flagged node but not the producer of its flag: the flag reads as None, the
    # node is switched off (and its successor still runs)
    dict(kind="sched", n=4, edges=[[0, 2], [2, 3]], attrs=[dict(priority=0, is_sequential=False, resource="thread")] * 4, flags={"2": ["node", 1]}, rets=[1, 1, 1, 1], fails=[], maxc=2, is_async=False,
         mode="exec", target=None, exclude=None, root=[0]),
    dict(kind="sched", n=4, edges=[[0, 2], [2, 3]], attrs=[dict(priority=0, is_sequential=False, resource="main-thread")] * 4, flags={"2": ["node", 1]}, rets=[1, 1, 1, 1], fails=[], maxc=1, is_async=True,
         mode="exec", target=None, exclude=None, root=[0]),
    # fan-in behind a sequential node
    dict(kind="sched", n=5, edges=[[0, 3], [1, 3], [2, 3], [3, 4]], attrs=[dict(priority=0, is_sequential=False, resource="thread")] * 3 + [dict(priority=5, is_sequential=True, resource="thread"), dict(priority=0, is_sequential=False, resource="main-thread")],
         flags={}, rets=[1] * 5, fails=[], maxc=3, is_async=False, mode="call"),
    # two sequential nodes queued, one async one main
    dict(kind="sched", n=4, edges=[[0, 1], [0, 2]], attrs=[dict(priority=0, is_sequential=False, resource="thread"), dict(priority=2, is_sequential=True, resource="async-thread"), dict(priority=1, is_sequential=True, resource="main-thread"), dict(priority=9, is_sequential=False, resource="thread")],
         flags={}, rets=[1] * 4, fails=[], maxc=2, is_async=True, mode="call"),
    # failing node with a sibling in flight
    dict(kind="sched", n=4, edges=[[0, 2], [1, 3]], attrs=[dict(priority=0, is_sequential=False, resource="thread")] * 4, flags={}, rets=[1] * 4, fails=[0], maxc=2, is_async=False, mode="call"),
    # deactivated node with dependents
    dict(kind="sched", n=3, edges=[[0, 1], [1, 2]], attrs=[dict(priority=0, is_sequential=False, resource="thread")] * 3, flags={"1": ["const", False]}, rets=[1] * 3, fails=[], maxc=1, is_async=False, mode="call"),
    # a failing main-thread node while an async-thread node is in flight (both flavours)
    dict(kind="sched", n=3, edges=[], attrs=[dict(priority=5, is_sequential=False, resource="async-thread"), dict(priority=1, is_sequential=False, resource="main-thread"), dict(priority=0, is_sequential=False, resource="thread")],
         flags={}, rets=[1, 1, 1], fails=[1], maxc=2, is_async=False, mode="call"),
    dict(kind="sched", n=3, edges=[], attrs=[dict(priority=5, is_sequential=False, resource="async-thread"), dict(priority=1, is_sequential=False, resource="main-thread"), dict(priority=0, is_sequential=False, resource="thread")],
         flags={}, rets=[1, 1, 1], fails=[1], maxc=2, is_async=True, mode="call"),
    # two failing nodes in flight together (their failures may be observed by one wait)
    dict(kind="sched", n=3, edges=[], attrs=[dict(priority=2, is_sequential=False, resource="thread"), dict(priority=1, is_sequential=False, resource="thread"), dict(priority=0, is_sequential=False, resource="main-thread")],
         flags={}, rets=[1, 1, 1], fails=[0, 1], maxc=3, is_async=False, mode="call"),
    dict(kind="sched", n=2, edges=[], attrs=[dict(priority=2, is_sequential=False, resource="async-thread"), dict(priority=1, is_sequential=False, resource="async-thread")],
         flags={}, rets=[1, 1], fails=[0, 1], maxc=2, is_async=True, mode="call"),
    # two flags taken from different items of one result
    dict(kind="sched", n=3, edges=[], attrs=[dict(priority=0, is_sequential=False, resource="thread")] * 3, flags={"1": ["node", 0, 0], "2": ["node", 0, 1]}, rets=[[1, 0], 1, 1], fails=[], maxc=1, is_async=False, mode="call"),
    dict(kind="sched", n=3, edges=[], attrs=[dict(priority=0, is_sequential=False, resource="thread"), dict(priority=1, is_sequential=False, resource="thread"), dict(priority=2, is_sequential=False, resource="thread")], flags={"1": ["node", 0, 0], "2": ["node", 0, 1]}, rets=[[1, 0], 1, 1], fails=[], maxc=2, is_async=True, mode="call"),
    # a restricted run whose nodes all have own priority 0; the table still holds the whole DAG's compound priorities
    dict(kind="sched", n=3, edges=[[1, 2]], attrs=[dict(priority=0, is_sequential=False, resource="thread"), dict(priority=0, is_sequential=False, resource="thread"), dict(priority=9, is_sequential=False, resource="thread")],
         flags={}, rets=[1] * 3, fails=[], maxc=1, is_async=False, mode="exec", target=None, exclude=[2], root=None),
    dict(kind="sched", n=3, edges=[[0, 2]], attrs=[dict(priority=0, is_sequential=False, resource="thread"), dict(priority=0, is_sequential=False, resource="thread"), dict(priority=9, is_sequential=False, resource="thread")],
         flags={}, rets=[1] * 3, fails=[], maxc=1, is_async=True, mode="exec", target=None, exclude=[2], root=None),
    # flags taken from two items of one result, the flagged nodes then reconfigured (they keep flag AND key path)
    dict(kind="sched", n=3, edges=[], attrs=[dict(priority=0, is_sequential=False, resource="thread"), dict(priority=1, is_sequential=False, resource="thread"), dict(priority=2, is_sequential=False, resource="thread")],
         flags={"1": ["node", 0, 0], "2": ["node", 0, 1]}, rets=[[1, 0], 1, 1], fails=[], maxc=2, is_async=False, mode="call",
         reconf=dict(pre=[dict(priority=0, is_sequential=False), dict(priority=2, is_sequential=False), dict(priority=1, is_sequential=False)], pre_maxc=2, by_tag=False, call_first=False,
                     steps=[{"nodes": {"n1": {"priority": 1}, "n2": {"priority": 2}}}])),
    dict(kind="sched", n=3, edges=[], attrs=[dict(priority=0, is_sequential=False, resource="thread"), dict(priority=1, is_sequential=False, resource="main-thread"), dict(priority=2, is_sequential=True, resource="thread")],
         flags={"1": ["node", 0, 1], "2": ["node", 0, 0]}, rets=[[0, 1], 1, 1], fails=[], maxc=1, is_async=True, mode="call",
         reconf=dict(pre=[dict(priority=0, is_sequential=False), dict(priority=1, is_sequential=False), dict(priority=2, is_sequential=False)], pre_maxc=1, by_tag=False, call_first=True,
                     steps=[{"nodes": {"n2": {"is_sequential": True}}}, {"nodes": {"n1": {"priority": 1}}}])),
    # called once, then reconfigured (priorities swapped), then called again
    dict(kind="sched", n=3, edges=[], attrs=[dict(priority=1, is_sequential=False, resource="thread"), dict(priority=2, is_sequential=False, resource="thread"), dict(priority=3, is_sequential=False, resource="thread")],
         flags={}, rets=[1] * 3, fails=[], maxc=1, is_async=False, mode="call",
         reconf=dict(pre=[dict(priority=3, is_sequential=False), dict(priority=2, is_sequential=False), dict(priority=1, is_sequential=False)], pre_maxc=1, by_tag=False, call_first=True,
                     steps=[{"nodes": {"n0": {"priority": 1}, "n2": {"priority": 3}}}, {"nodes": {}}])),
    # a diamond of setup nodes set up through its root
    dict(kind="sched", n=5, edges=[[0, 1], [0, 2], [1, 3], [2, 3], [3, 4]], attrs=[dict(priority=0, is_sequential=False, resource="thread"), dict(priority=0, is_sequential=False, resource="thread"), dict(priority=-1, is_sequential=False, resource="thread"), dict(priority=5, is_sequential=False, resource="thread"), dict(priority=0, is_sequential=False, resource="thread")],
         flags={}, rets=[1] * 5, fails=[], maxc=2, is_async=False, mode="setup_root_then_call", setup=[0, 1, 2, 3], setup_roots=[0]),
    dict(kind="sched", n=4, edges=[[0, 1], [0, 2], [1, 3], [2, 3]], attrs=[dict(priority=0, is_sequential=False, resource="async-thread"), dict(priority=0, is_sequential=False, resource="thread"), dict(priority=-1, is_sequential=False, resource="async-thread"), dict(priority=5, is_sequential=False, resource="thread")],
         flags={}, rets=[1] * 4, fails=[], maxc=3, is_async=True, mode="setup_root_then_call", setup=[0, 1, 2, 3], setup_roots=[0]),
    # a failing debug node with a debug dependent, RUN_DEBUG_NODES on
    dict(kind="sched", n=3, edges=[[0, 1], [1, 2]], attrs=[dict(priority=0, is_sequential=False, resource="thread")] * 3, flags={}, rets=[1, 1, 1], fails=[1], maxc=2, is_async=False, mode="call", debug=[1, 2], run_debug=True),
    dict(kind="sched", n=3, edges=[[0, 1], [1, 2]], attrs=[dict(priority=0, is_sequential=False, resource="async-thread")] * 3, flags={}, rets=[1, 1, 1], fails=[1], maxc=2, is_async=True, mode="call", debug=[1, 2], run_debug=True),
    # flag from a node result (falsy)
    dict(kind="sched", n=3, edges=[[0, 2]], attrs=[dict(priority=0, is_sequential=False, resource="thread")] * 3, flags={"2": ["node", 1]}, rets=[1, 0, 1], fails=[], maxc=2, is_async=False, mode="call"),
]


# cases run WITHOUT the controller and with node bodies that take real time (0.12 s): waits that give up after a
# timeout, polling loops, ... are only visible when completions are not instantaneous
def _a(p, seq, r):
    return dict(priority=p, is_sequential=seq, resource=r)


SLOW_CORPUS = [
    dict(kind="sched", n=3, edges=[], attrs=[_a(5, True, "async-thread"), _a(1, False, "thread"), _a(0, False, "main-thread")], flags={}, rets=[1, 1, 1], fails=[], maxc=2, is_async=False, mode="call"),
    dict(kind="sched", n=3, edges=[], attrs=[_a(5, True, "async-thread"), _a(1, False, "thread"), _a(0, False, "main-thread")], flags={}, rets=[1, 1, 1], fails=[], maxc=2, is_async=True, mode="call"),
    dict(kind="sched", n=4, edges=[[0, 1]], attrs=[_a(0, False, "thread"), _a(5, True, "thread"), _a(1, False, "async-thread"), _a(0, False, "thread")], flags={}, rets=[1] * 4, fails=[], maxc=3, is_async=False, mode="call"),
    dict(kind="sched", n=4, edges=[[0, 3], [1, 3]], attrs=[_a(2, False, "async-thread"), _a(1, False, "thread"), _a(0, True, "main-thread"), _a(0, False, "async-thread")], flags={}, rets=[1] * 4, fails=[], maxc=2, is_async=True, mode="call"),
]


def all_small_shapes(max_n):
    """every DAG shape on <= max_n nodes with edges i<j."""
    for n in range(1, max_n + 1):
        pairs = [(i, j) for j in range(n) for i in range(j)]
        for k in range(len(pairs) + 1):
            for es in itertools.combinations(pairs, k):
                yield n, [list(e) for e in es]


# ------------------------------------------------------------------------------ building on the real library
def node_name(i):
    return "n%d" % i


def build(case):
    """-> (thunks, is_async): thunks is a list of callables each starting one operation."""
    n = case["n"]
    setup = set(case.get("setup") or [])
    debug = set(case.get("debug") or [])
    fs = []
    rc = case.get("reconf")
    for i in range(n):
        a = dict(case["attrs"][i])
        a["resource"] = RES[a["resource"]]
        if rc:
            a.update(rc["pre"][i])
            if rc["by_tag"]:
                a["tag"] = "t%d" % i
        if i in setup:
            a["setup"] = True
        if i in debug:
            a["debug"] = True
        fs.append(tz.mknode(node_name(i), case["rets"][i], **a))
    eset = {tuple(e) for e in case["edges"]}

    def desc():
        v = {}
        for i in range(n):
            kw = {}
            fl = case["flags"].get(str(i))
            if fl is not None:
                kw["twz_active"] = fl[1] if fl[0] == "const" else (v[fl[1]] if len(fl) == 2 else v[fl[1]][fl[2]])
            v[i] = fs[i](*[v[j] for j in range(i) if (j, i) in eset], **kw)
        return tuple(v[i] for i in range(n))

    desc.__qualname__ = "desc"
    desc.__name__ = "desc"
    d = tawazi.dag(desc, max_concurrency=rc["pre_maxc"] if rc else case["maxc"], is_async=case["is_async"])
    if rc and rc.get("call_first") and not case.get("setup"):
        # (under a free-running controller: its watchdog ends a call that hangs or spins, and the hang is a finding)
        ctl0 = tz.Ctl(free_run=True)
        st0 = tz.run_controlled(lambda: d(), ctl0, is_async=case["is_async"])
        if st0[0] == "hang" or (ctl0.broken and "spin" in str(ctl0.broken)):
            raise tz.HarnessBroken("the call made before the reconfiguration did not return: %s" % (ctl0.broken,))
    if rc:
        for st in rc["steps"]:
            if "assign_max_concurrency" in st:
                d.max_concurrency = st["assign_max_concurrency"]
            else:
                d.config_from_dict(st)
    mode = case.get("mode", "call")
    names = lambda l: None if l is None else [node_name(i) for i in l]  # noqa: E731
    if mode == "call":
        return d, [lambda: d()]
    if mode == "call_toggle":
        return d, [lambda: d(), lambda: d()]
    if mode == "setup_then_call":
        return d, [lambda: d.setup(), lambda: d()]
    if mode == "setup_root_then_call":
        return d, [lambda: d.setup(root_nodes=names(case["setup_roots"])), lambda: d()]
    if mode == "exec":
        ex = d.executor(target_nodes=names(case.get("target")), exclude_nodes=names(case.get("exclude")), root_nodes=names(case.get("root")))
        return d, [lambda: ex()]
    raise ValueError(mode)


def declared_cfg(case, cfg, dag_cp=None, run_debug=None):
    """the configuration the user declared (decorator arguments, then reconfiguration), which is what the
    properties speak about: sequential flags, resources and max_concurrency come from the case, not from what
    the scheduler was handed.  -> (cfg, list of (property, message) for each difference)"""
    out = dict(cfg)
    diffs = []
    if cfg["maxc"] != case["maxc"]:
        # a larger limit than declared lets the bound be exceeded (C04); a smaller one leaves declared slots unused (C08)
        diffs.append((("C04",) if cfg["maxc"] > case["maxc"] else ("C08",), "the scheduler was handed max_concurrency=%r, the DAG's max_concurrency is %r" % (cfg["maxc"], case["maxc"])))
        out["maxc"] = case["maxc"]
    seq, res = dict(cfg["seq"]), dict(cfg["res"])
    for nme in cfg["nodes"]:
        if not (nme.startswith("n") and nme[1:].isdigit()) or int(nme[1:]) >= case["n"]:
            continue
        a = case["attrs"][int(nme[1:])]
        if nme in seq and seq[nme] != a["is_sequential"]:
            diffs.append((("C05",), "node %s is declared is_sequential=%r, the scheduler was handed %r" % (nme, a["is_sequential"], seq[nme])))
            seq[nme] = a["is_sequential"]
        if nme in res and res[nme] != a["resource"]:
            diffs.append((("C04",), "node %s is declared with resource %s, the scheduler was handed %s" % (nme, a["resource"], res[nme])))
            res[nme] = a["resource"]
    out["seq"], out["res"] = seq, res
    # the compound priorities the scheduler picks by are those of the DAG (K-graph ties that table to Priority.v)
    if dag_cp is not None:
        cp = dict(cfg["cp"])
        for nme in cfg["nodes"]:
            if nme in dag_cp and cp.get(nme) != dag_cp[nme]:
                diffs.append((("C06", "C07"), "node %s has compound priority %r in the DAG, the scheduler was handed %r" % (nme, dag_cp[nme], cp.get(nme))))
                cp[nme] = dag_cp[nme]
        out["cp"] = cp
    # a plain call runs every node, debug nodes exactly when RUN_DEBUG_NODES is on at the time of the call
    if run_debug is not None and case.get("mode", "call") in ("call", "call_toggle") and not case.get("setup"):
        dbg = set(case.get("debug") or [])
        expect = {node_name(i) for i in range(case["n"]) if run_debug or i not in dbg}
        got = {x for x in cfg["nodes"] if x.startswith("n") and x[1:].isdigit()}
        if got != expect:
            props = ("C13", "C03") + (("C17",) if case.get("is_async") else ())
            diffs.append((props, "with RUN_DEBUG_NODES %s a call runs the nodes %s, the scheduler was handed %s" % ("on" if run_debug else "off", sorted(expect), sorted(got))))
    return out, diffs


# ------------------------------------------------------------------------------ trace -> labels
class Unparsable(Exception):
    pass


def segments(trace, ctl):
    """split the scheduler-thread events into one list per async_execute call."""
    segs = []
    curseg = None
    for e in trace:
        if e[0] == "BEGIN":
            curseg = dict(cfg=dict(ctl.cfgs[e[1]], invoker=getattr(ctl, "invoker", None)), evs=[])
            segs.append(curseg)
            continue
        if curseg is None:
            continue
        if e[0] in ("ENTER", "EXIT", "XENTER", "XEXIT") and not e[2]:
            continue  # worker-thread events: position is not meaningful for the scheduler LTS
        if e[0] in ("ENTER", "EXIT", "BOOM"):
            continue  # inline function body: covered by XENTER/XEXIT
        curseg["evs"].append(e)
        if e[0] == "END":
            curseg = None
    return segs


def to_labels(evs):
    """-> (labels, end) ; labels: list of (label tuple, obs tuple|None); end: ('ok',)|('raise', node|None, exc)"""
    out = []
    i = 0
    end = None
    while i < len(evs):
        e = evs[i]
        t = e[0]
        if t == "WAIT":
            _, k, m, infl, runn, remn = e
            dones = []
            inf = set(infl)
            j = i + 1
            while j < len(evs) and evs[j][0] == "REMOVE" and evs[j][1] in inf:
                dones.append((evs[j][1], True))
                inf.discard(evs[j][1])
                j += 1
            if j < len(evs) and evs[j][0] == "END" and evs[j][1] == "raise" and infl:
                fn = tz.failing_node_of(evs[j][2])
                if fn is not None and fn in inf:
                    dones.append((fn, False))
            out.append((("W", k, "F" if m == H.FIRST_COMPLETED else "A", dones), ("W", infl, runn, remn)))
            i = j
        elif t == "PICK":
            out.append((("P", e[1]), ("P", e[2])))
            i += 1
        elif t == "ACTIVE":
            if not e[2]:
                if i + 1 < len(evs) and evs[i + 1] == ("REMOVE", e[1]):
                    i += 1
                else:
                    raise Unparsable("skip of %s not followed by its removal" % e[1])
            out.append((("A", e[1], bool(e[2])), None))
            i += 1
        elif t == "SUBMIT":
            out.append((("S", e[1], e[2]), None))
            i += 1
        elif t == "XENTER":
            n = e[1]
            if i + 1 >= len(evs) or evs[i + 1][0] != "XEXIT" or evs[i + 1][1] != n:
                raise Unparsable("inline execution of %s not closed" % n)
            ok = evs[i + 1][3]
            i += 2
            if ok:
                if i < len(evs) and evs[i] == ("REMOVE", n):
                    i += 1
                else:
                    raise Unparsable("inline node %s not removed after it returned" % n)
            out.append((("I", n, bool(ok)), None))
        elif t == "END":
            if e[1] == "ok":
                out.append((("E",), None))
                end = ("ok",)
            else:
                end = ("raise", tz.failing_node_of(e[2]), e[2])
            i += 1
        elif t == "REMOVE":
            raise Unparsable("removal of %s outside a wait / skip / inline execution" % e[1])
        else:
            raise Unparsable("unexpected event %r" % (e,))
    return out, end


def end_of(evs):
    """the outcome of an execution from its END event alone (for traces the model's label parser rejects)"""
    for e in evs:
        if e[0] == "END":
            return ("ok",) if e[1] == "ok" else ("raise", tz.failing_node_of(e[2]), e[2])
    return None


# ------------------------------------------------------------------------------ monitors (independent of the model)
def monitors(cfg, trace_seg_all, labels, end):
    """Direct evaluation of the properties' statements on what the implementation did.
    trace_seg_all: all events (also worker events) between this BEGIN and END, with global order.
    Returns list of (property, message)."""
    errs = []
    nodes = set(cfg["nodes"])
    pre = set(cfg["pre"])
    deps = {n: set(cfg["deps"].get(n, [])) for n in nodes}
    part = nodes - pre
    fn_enter = {}
    fn_exit = {}
    xenter = {}
    xexit = {}
    skipped = set()
    removed = []
    sched_tid = None
    for k, e in enumerate(trace_seg_all):
        if e[0] == "ENTER":
            fn_enter.setdefault(e[1], []).append((k, e[2], e[3]))
        elif e[0] == "EXIT":
            fn_exit.setdefault(e[1], []).append(k)
        elif e[0] == "XENTER":
            xenter.setdefault(e[1], []).append((k, e[2], e[3]))
        elif e[0] == "XEXIT":
            xexit.setdefault(e[1], []).append((k, e[3], e[4]))
        elif e[0] == "ACTIVE" and not e[2]:
            skipped.add(e[1])
        elif e[0] == "REMOVE":
            removed.append(e[1])
    # C03: at most once, only participating nodes
    for n, ks in xenter.items():
        if len(ks) > 1:
            errs.append(("C03", "node %s executed %d times in one execution" % (n, len(ks))))
        if n not in part:
            errs.append(("C03", "node %s executed although not selected / already computed" % n))
        if n in skipped:
            errs.append(("C10", "node %s executed although its flag was falsy" % n))
    if end == ("ok",):
        for n in part:
            if n not in skipped and n not in xenter:
                errs.append(("C03", "selected active node %s never executed in a successful run" % n))
                errs.append(("C09", "returned normally although node %s has not run" % n))
    # C10 / C03: the activation decision is the truthiness of the flag's value (after indexing)
    for e in trace_seg_all:
        if e[0] != "ACTIVE" or e[1] not in cfg.get("active", {}):
            continue
        p, key = cfg["active"][e[1]]
        if p not in part:
            # the producer of the flag is not part of this run (a root / target restricted selection left it out) and has no
            # stored result: the flag reads as None, the node is switched off
            if p not in cfg.get("results_keys", []) and e[2]:
                msg = "node %s was run although the producer %s of its flag is not part of the run and has no stored result (the flag reads as None)" % (e[1], p)
                errs.append(("C10", msg))
                errs.append(("C03", msg))
            continue
        if p in skipped:
            exp = None
        else:
            okx = [x for x in xexit.get(p, []) if x[1]]
            if not okx:
                continue
            exp = okx[0][2]
            try:
                for k_ in key:
                    exp = exp[k_]
            except BaseException:  # noqa: BLE001
                continue
        if bool(exp) != bool(e[2]):
            msg = "node %s was %s although its flag %s%s is %r" % (e[1], "run" if e[2] else "deactivated", p, list(key), exp)
            errs.append(("C10", msg))
            errs.append(("C03", msg))
    # C02: dependencies returned before entry; values
    for n, ks in xenter.items():
        k0 = ks[0][0]
        for p in deps.get(n, ()):
            if p not in part or p in skipped:
                continue
            ok = [x for x in xexit.get(p, []) if x[1]]
            if not ok or ok[0][0] > k0:
                errs.append(("C02", "node %s entered before its dependency %s returned" % (n, p)))
    # C02, second sentence: the values a node receives are its dependencies' return values after the
    # indexing the user wrote (None for a deactivated dependency, None for one outside the execution)
    from .terms import same as _same
    for n, ks in xenter.items():
        seen = ks[0][2]
        for i_, (p, key) in enumerate(cfg.get("refs", {}).get(n, [])):
            if i_ >= len(seen):
                break
            got = seen[i_]
            if p in skipped:
                exp = None
            elif p in part:
                okx = [x for x in xexit.get(p, []) if x[1]]
                if not okx:
                    continue
                exp = okx[0][2]
                try:
                    for k_ in key:
                        exp = exp[k_]
                except BaseException:  # noqa: BLE001
                    continue
            elif p not in cfg.get("results_keys", [p]):
                exp = None
            else:
                continue
            if isinstance(got, tuple) and len(got) == 2 and got[0] == "<raises>":
                continue
            if not _same(got, exp) and not (got == exp and type(got) is type(exp) and not hasattr(got, "_bin")):
                errs.append(("C02", "node %s received %r for its dependency %s%s, which returned %r" % (n, got, p, key, exp)))
    # C04 / C05 on real function-body intervals
    live = set()
    for e in trace_seg_all:
        if e[0] == "XENTER":
            n = e[1]
            r = cfg["res"].get(n)
            if r != "main-thread":
                if e[2]:
                    errs.append(("C04", "pooled node %s ran on the invoking thread" % n))
                live.add(n)
                if len(live) > cfg["maxc"]:
                    errs.append(("C04", "%d pooled nodes in flight > max_concurrency %d" % (len(live), cfg["maxc"])))
            else:
                if not e[2]:
                    errs.append(("C04", "main-thread node %s ran on a worker thread" % n))
                elif cfg.get("invoker") is not None and len(e) > 4 and e[4] != cfg["invoker"]:
                    errs.append(("C04", "main-thread node %s ran on the scheduler's thread, which is not the thread that invoked the DAG" % n))
            if r != "main-thread" and cfg.get("invoker") is not None and len(e) > 4 and e[4] == cfg["invoker"]:
                errs.append(("C04", "pooled node %s ran on the invoking thread" % n))
            others = [x for x in live if x != n]
            if cfg["seq"].get(n) and others:
                errs.append(("C05", "sequential node %s entered while %s running" % (n, others)))
            if any(cfg["seq"].get(x) for x in others):
                errs.append(("C05", "node %s entered while sequential node(s) %s running" % (n, [x for x in others if cfg["seq"].get(x)])))
        elif e[0] == "XEXIT":
            live.discard(e[1])
    # C04 at submission time: handed out and not yet observed done
    infl = set()
    for e in trace_seg_all:
        if e[0] == "SUBMIT":
            infl.add(e[2])
            if len(infl) > cfg["maxc"]:
                errs.append(("C04", "%d nodes handed to workers > max_concurrency %d" % (len(infl), cfg["maxc"])))
        elif e[0] == "REMOVE":
            infl.discard(e[1])
    # C06: shadow ready set from REMOVE events only
    rem = set(part)
    startedset = set()
    for e in trace_seg_all:
        if e[0] == "REMOVE":
            rem.discard(e[1])
        elif e[0] == "SUBMIT" or (e[0] == "XENTER" and e[2]) or (e[0] == "ACTIVE" and not e[2]):
            n = e[2] if e[0] == "SUBMIT" else e[1]
            ready = {m for m in rem if m not in startedset and not (deps.get(m, set()) & rem)}
            best = [m for m in ready if cfg["cp"][m] > cfg["cp"][n]]
            if n not in ready:
                errs.append(("C02", "node %s started while not ready (deps %s unfinished)" % (n, sorted(deps.get(n, set()) & rem))))
            if best:
                errs.append(("C06", "node %s (cp %s) started while %s with greater compound priority ready" % (n, cfg["cp"][n], best)))
            startedset.add(n)
    # a node whose function raised has not returned: its execution must be reported as failed, the call must fail,
    # and nothing that depends on it may start (C14); a dependent that starts has a dependency that never returned (C02)
    boomed = [e[1] for e in trace_seg_all if e[0] == "BOOM"]
    for n in boomed:
        ok_exit = [x for x in xexit.get(n, []) if x[1]]
        if ok_exit:
            errs.append(("C14", "the function of node %s raised, but its execution was reported as successful (value %r)" % (n, ok_exit[0][2])))
            for m in nodes:
                if n in deps.get(m, set()) and m in xenter:
                    errs.append(("C02", "node %s was entered although its dependency %s raised and never returned" % (m, n)))
        if end == ("ok",):
            errs.append(("C14", "the function of node %s raised, but the call returned normally" % n))
    # C14
    if end is not None and end[0] == "raise":
        if end[1] is None:
            errs.append(("C14", "call raised %s: %s which is not a node failure" % (type(end[2]).__name__, end[2])))
        else:
            fnode = end[1]
            exc = end[2]
            if type(exc).__name__ == "TawaziBaseException":
                c = exc.__cause__
                if fnode not in str(exc) or c is None:
                    errs.append(("C14", "exception does not name failing node %s or lacks cause" % fnode))
                elif isinstance(c, tz.NodeBoom) and c.node != fnode:
                    errs.append(("C14", "exception names failing node %s, its cause is the exception raised by %s" % (fnode, c.node)))
                elif not isinstance(c, tz.NodeBoom) and type(c).__name__ != "TawaziBaseException":
                    errs.append(("C14", "exception names failing node %s, its cause is %r, not the exception the node's function raised (NodeBoom)" % (fnode, c)))
                elif type(c).__name__ == "TawaziBaseException":
                    errs.append(("C14", "exception names failing node %s, its cause is not the original exception but %r" % (fnode, c)))
            elif not isinstance(exc, tz.NodeBoom):
                # neither tawazi's wrapper nor the very exception the node's function raised (generated
                # node functions fail with NodeBoom only)
                errs.append(("C14", "node %s failed and the call raised %s: %s, which neither identifies the failing node nor is the node's own exception" % (fnode, type(exc).__name__, str(exc)[:80])))
    failed = {n for n, xs in xexit.items() if any(not x[1] for x in xs)}
    if failed:
        desc = set()
        frontier = set(failed)
        while frontier:
            nxt = {m for m in nodes if deps.get(m, set()) & frontier} - desc
            desc |= nxt
            frontier = nxt
        for n in desc:
            if n in xenter:
                errs.append(("C14", "node %s depending on failed node was started" % n))
    return errs


def blocking_waits(labels):
    """for the C08 monitor: list of blocking waits with the observed sets."""
    out = []
    prevA = 0
    for lab, obs in labels:
        if lab[0] == "W":
            if lab[1] == "A":
                prevA = len(lab[3])
            if obs[1]:
                out.append(dict(kind=lab[1], mode=lab[2], infl=list(obs[1]), runnable=list(obs[2]), prevA=prevA if lab[1] == "C" else 0))
        elif lab[0] in ("P",):
            pass
    return out
