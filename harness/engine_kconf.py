"""engine: K-conf (the "every configuration" quantifier of C04 C05 C07 C08): sequences of config_from_dict /
config_from_yaml / config_from_json steps on a real DAG, compared step by step with Reconf.kconf (which
attributes every node has afterwards, max_concurrency, which steps raise ValueError), followed by one run
whose scheduler must be handed exactly those attributes."""
import collections
import hashlib
import json
import os
import random

from . import coqrun, tz
from .tz import Resource, tawazi

RES = ["thread", "async-thread", "main-thread"]
RESV = {"thread": Resource.thread, "async-thread": Resource.async_thread, "main-thread": Resource.main_thread}
UNKNOWN = "zz"


def gen_case(rng, max_n=6):
    n = rng.randint(2, max_n)
    pe = rng.choice([0.2, 0.4, 0.6])
    edges = [[i, j] for j in range(n) for i in range(j) if rng.random() < pe]
    attrs = [dict(priority=rng.randint(-3, 5), is_sequential=rng.random() < 0.3, resource=rng.choice(RES)) for _ in range(n)]
    tags = {}
    for i in range(n):
        r = rng.random()
        if r < 0.3:
            tags[str(i)] = [rng.choice(["t0", "t1", "t2"])]
        elif r < 0.4:
            tags[str(i)] = rng.sample(["t0", "t1", "t2"], 2)
        elif r < 0.5:
            tags[str(i)] = ["n%d" % rng.choice([j for j in range(n) if j != i])]  # a tag equal to another node's id
    used = sorted({t for ts in tags.values() for t in ts})
    steps = []
    for _ in range(rng.randint(1, 4)):
        keys = []
        pool = ["n%d" % i for i in range(n)] * 2 + used * 2 + ([UNKNOWN] if rng.random() < 0.1 else [])
        for _k in range(rng.randint(0, 3)):
            k = rng.choice(pool)
            if k not in keys:
                keys.append(k)
        nodes = {}
        for k in keys:
            e = {}
            if rng.random() < 0.6:
                e["priority"] = rng.randint(-3, 6)
            if rng.random() < 0.45:
                e["is_sequential"] = rng.random() < 0.5
            nodes[k] = e
        st = dict(how=rng.choice(["dict", "dict", "yaml", "json"]), config={})
        if nodes or rng.random() < 0.7:
            st["config"]["nodes"] = nodes
        if rng.random() < 0.4:
            st["config"]["max_concurrency"] = rng.randint(1, 4)
        steps.append(st)
    return dict(kind="conf", n=n, edges=edges, attrs=attrs, tags=tags, maxc=rng.randint(1, 4), is_async=rng.random() < 0.3, steps=steps,
                call_first=random.Random(rng.getrandbits(30)).random() < 0.5, exec_before=random.Random(rng.getrandbits(30)).random() < 0.4)


def build(case):
    n = case["n"]
    fs = []
    for i in range(n):
        a = dict(case["attrs"][i])
        a["resource"] = RESV[a["resource"]]
        ts = case["tags"].get(str(i))
        if ts:
            a["tag"] = ts[0] if len(ts) == 1 else tuple(ts)
        fs.append(tz.mknode("n%d" % i, i, **a))
    eset = {tuple(e) for e in case["edges"]}

    def cdesc():
        v = {}
        for i in range(n):
            v[i] = fs[i](*[v[j] for j in range(i) if (j, i) in eset])
        return tuple(v[i] for i in range(n))

    cdesc.__qualname__ = "cdesc"
    cdesc.__name__ = "cdesc"
    return tawazi.dag(cdesc, max_concurrency=case["maxc"], is_async=case["is_async"])


def observe(d, n):
    out = [d.max_concurrency]
    for i in range(n):
        x = d.exec_nodes["n%d" % i]
        out += [x.priority, 1 if x.is_sequential else 0, RES.index(x.resource.value)]
    return out


class StaleTable(Exception):
    pass


class StaleLimit(Exception):
    pass


def run_impl(case, tmpdir):
    d = build(case)
    obs = []
    if case.get("call_first"):
        # the DAG has already been called once before it is reconfigured
        tz.run_controlled(lambda: d(), tz.Ctl(free_run=True), is_async=case["is_async"])
    ex_before = None
    if case.get("exec_before"):
        # an executor created BEFORE the reconfigurations and run after them
        try:
            ex_before = d.executor()
        except BaseException:  # noqa: BLE001
            ex_before = None
    for si, st in enumerate(case["steps"]):
        try:
            if st["how"] == "dict":
                d.config_from_dict(json.loads(json.dumps(st["config"])))
            elif st["how"] == "json":
                p = os.path.join(tmpdir, "c%d.json" % si)
                json.dump(st["config"], open(p, "w"))
                d.config_from_json(p)
            else:
                import yaml
                p = os.path.join(tmpdir, "c%d.yaml" % si)
                yaml.safe_dump(st["config"], open(p, "w"))
                d.config_from_yaml(p)
            ok = 1
        except ValueError:
            ok = 0
        obs.append([ok] + observe(d, case["n"]))
    # one run: what the scheduler is handed
    ctl = tz.Ctl(free_run=True)
    st = tz.run_controlled(lambda: d(), ctl, is_async=case["is_async"])
    handed = None
    if ctl.cfgs:
        c = ctl.cfgs[0]
        # the compound priorities the scheduler picks by are those of the reconfigured DAG
        dag_cp = dict(d.graph_ids.compound_priority)
        stale = {k_: (c["cp"][k_], dag_cp.get(k_)) for k_ in c["cp"] if c["cp"][k_] != dag_cp.get(k_)}
        if stale:
            raise StaleTable(stale)
        handed = [c["maxc"]]
        for i in range(case["n"]):
            nm = "n%d" % i
            handed += [None, 1 if c["seq"].get(nm) else 0, RES.index(c["res"][nm]) if nm in c["res"] else None]
    if ex_before is not None and obs:
        ctl2 = tz.Ctl(free_run=True)
        tz.run_controlled(lambda: ex_before(), ctl2, is_async=case["is_async"])
        if ctl2.cfgs and ctl2.cfgs[0]["maxc"] != obs[-1][1]:
            raise StaleLimit((ctl2.cfgs[0]["maxc"], obs[-1][1]))
    return obs, handed, st


def alias_code(k, n):
    if k.startswith("n") and k[1:].isdigit():
        return int(k[1:])
    if k.startswith("t") and k[1:].isdigit():
        return 100 + int(k[1:])
    return 999


def opt(v, render):
    return "None" if v is None else "(Some %s)" % render(v)


def model_term(case):
    n = case["n"]
    tagged = collections.defaultdict(list)
    for i in range(n):
        for t in case["tags"].get(str(i), []):
            tagged[alias_code(t, n)].append(i)
    tags = "[" + "; ".join("(%d, %s)" % (a, coqrun.nat_list(ns)) for a, ns in sorted(tagged.items())) + "]"
    attrs = "[" + "; ".join("(%d, mkattr %s %s %d)" % (i, coqrun.z(a["priority"]), "true" if a["is_sequential"] else "false", RES.index(a["resource"]))
                            for i, a in enumerate(case["attrs"])) + "]"
    steps = []
    for st in case["steps"]:
        ents = []
        for k, e in st["config"].get("nodes", {}).items():
            ents.append("(%d, mkentry %s %s)" % (alias_code(k, n), opt(e.get("priority"), coqrun.z), opt(e.get("is_sequential"), lambda b: "true" if b else "false")))
        steps.append("mkcstep [%s] %s" % ("; ".join(ents), opt(st["config"].get("max_concurrency"), coqrun.z)))
    return "kconf %s %s %s %s [%s]" % (coqrun.nat_list(range(n)), tags, attrs, coqrun.z(case["maxc"]), "; ".join(steps))


FIELD_PROPS = {0: ("C07", "C06"), 1: ("C05",), 2: ("C04",)}
FIELD_NAMES = {0: "priority", 1: "is_sequential", 2: "resource"}


def run(pid, tier, seed, res, only=None):
    rng = random.Random(seed * 49979687 + 5)
    ncases = 150 if tier == "quick" else 2500
    cases = [gen_case(rng, max_n=6 if tier == "quick" else 8) for _ in range(ncases)]
    if only is not None:
        cases = list(only)
    tmpdir = os.path.join(coqrun.BUILD, "kc_%s" % pid)
    os.makedirs(tmpdir, exist_ok=True)
    dist = collections.Counter()
    items, where = [], []
    for case in cases:
        base = dict(engine="kconf", case=case)
        try:
            obs, handed, st = run_impl(case, tmpdir)
        except StaleLimit as e:
            h_, l_ = e.args[0]
            for p in (("C04",) if h_ > l_ else ("C08",)):
                res.hit(p, "monitor", "an executor created before the reconfigurations and run after them: max_concurrency is %r now, the scheduler was handed %r" % (l_, h_), dict(base, kind="monitor"))
            continue
        except StaleTable as e:
            for p in ("C07", "C06"):
                res.hit(p, "monitor", "after the reconfigurations%s the scheduler was handed compound priorities that differ from the DAG's table: %s (handed, DAG)" % (" (the DAG had been called once before)" if case.get("call_first") else "", dict(list(e.args[0].items())[:3])), dict(base, kind="monitor"))
            continue
        except BaseException as e:  # noqa: BLE001
            if isinstance(e, (KeyboardInterrupt, SystemExit)):
                raise
            for p in ("C04", "C05", "C07", "C08"):
                res.hit(p, "monitor", "a reconfiguration step raised %s: %s (only ValueError is documented)" % (type(e).__name__, str(e)[:150]), dict(base, kind="monitor"))
            dist["raised_other"] += 1
            continue
        res.evaluations += 1
        dist["steps=%d" % len(case["steps"])] += 1
        for o in obs:
            dist["step_ok" if o[0] else "step_ValueError"] += 1
        for st_ in case["steps"]:
            dist["how=" + st_["how"]] += 1
        if len(case["steps"]) >= 2 or case["tags"]:
            res.distinct.add(hashlib.sha1(json.dumps(case, sort_keys=True).encode()).hexdigest()[:12])
        # the scheduler is handed what the DAG says after the last step
        if handed is not None and obs:
            last = obs[-1][1:]
            if handed[0] != last[0]:
                for p in (("C04",) if handed[0] > last[0] else ("C08",)):
                    res.hit(p, "monitor", "after the reconfigurations max_concurrency is %r, the scheduler was handed %r" % (last[0], handed[0]), dict(base, kind="monitor"))
            for i in range(case["n"]):
                for fld in (1, 2):
                    hv, lv = handed[1 + 3 * i + fld], last[1 + 3 * i + fld]
                    if hv is not None and hv != lv:
                        res.hit(FIELD_PROPS[fld][0], "monitor", "after the reconfigurations node n%d has %s=%r, the scheduler was handed %r" % (i, FIELD_NAMES[fld], lv, hv), dict(base, kind="monitor"))
        where.append((case, obs, base))
        items.append(model_term(case))
    prefix = "kconf_%s" % pid
    coqrun.clean_build(prefix)
    paths = coqrun.write_shards(prefix, "Reconf", items, per_file=60, ty="list Z")
    results, errors = coqrun.run_shards(paths)
    coqrun.clean_build(prefix)
    if errors:
        res.hit(pid, "divergence", "coqc failed on K-conf case files: " + errors[0][2][-400:], dict(kind="coqc-error"))
    for k, (case, obs, base) in enumerate(where):
        v = results.get(k)
        if v is None:
            res.hit(pid, "divergence", "no model result for a reconfiguration case", dict(base, kind="no-result"))
            continue
        w = 2 + 3 * case["n"]
        for si, o in enumerate(obs):
            m = v[si * w:(si + 1) * w]
            if len(m) != w:
                res.hit(pid, "divergence", "K-conf: model output too short", dict(base, kind="no-result"))
                break
            if m == o:
                continue
            if m[0] != o[0]:
                for p in ("C04", "C05", "C07", "C08"):
                    res.hit(p, "divergence", "K-conf: step %d (%s) %s, Reconf.step says %s" % (si, case["steps"][si]["config"], "is accepted" if o[0] else "raises ValueError", "accepted" if m[0] else "ValueError (unknown alias / two keys reaching one node)"),
                            dict(base, kind="divergence", step=si))
                break
            if m[1] != o[1]:
                for p in ("C04", "C08"):
                    res.hit(p, "divergence", "K-conf: after step %d max_concurrency is %r, Reconf says %r" % (si, o[1], m[1]), dict(base, kind="divergence", step=si))
            for i in range(case["n"]):
                for fld in (0, 1, 2):
                    a, b = o[2 + 3 * i + fld], m[2 + 3 * i + fld]
                    if a != b:
                        for p in FIELD_PROPS[fld]:
                            res.hit(p, "divergence", "K-conf: after step %d (%s) node n%d has %s=%r, Reconf says %r" % (si, case["steps"][si]["config"], i, FIELD_NAMES[fld], a, b), dict(base, kind="divergence", step=si))
            break
    res.distribution["kconf"] = dict(dist)
    res.engine_info["kconf"] = dict(cases=len(cases), model_evaluations=len(items))
    if cases:
        res.samples.append(dict(engine="kconf", case=cases[0]))
    import shutil
    shutil.rmtree(tmpdir, ignore_errors=True)
