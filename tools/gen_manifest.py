#!/usr/bin/env python3
"""regenerates /verif/MANIFEST.json from the table below (kept valid at all times)."""
import json, os
V = os.path.dirname(os.path.dirname(os.path.abspath(__file__)))
ids = [json.loads(l)["id"] for l in open(os.path.join(V, "properties.jsonl"))]

NOTE_SCHED = ("trusted: Coq kernel + vm_compute; the hand-written scheduler model (coq/Sched.v) and the harness that feeds it the observed labels; "
              "futures semantics (a node body runs inside [dispatch, observed-done]); pure terminating node functions. Axioms: none (Closed under the global context).")
CLAIMED = {
 "C02": ("proof", "Theorems C02_* (coq/Properties/C02.v) over the scheduler LTS: for every wf configuration and every accepted label sequence (all completion orders, tie-breaks, failing nodes) every participating dependency is observed finished (or deactivated) before a node starts. Model tied to /repo on every run by trace acceptance (K-sched) of controlled runs of the real scheduler + independent monitor on ENTER/EXIT events and argument values. Real entry/exit containment in [dispatch, done] is monitored, not proved.", "6 C02"),
 "C03": ("proof", "Theorems C03_* : NoDup of starts in every run, exactly-once for every selected node in every successful run, nothing unselected/pre-computed starts. K-sched + entry-counter monitor. K-hist (position in a history) and K-graph (selection through every alias form) also run under C03.", "6 C03"),
 "C04": ("proof", "Theorem C04_inflight_bounded: in every reachable state |thread in flight| + |async in flight| <= max_concurrency and kinds match resources; inline execution only for main-thread nodes. K-sched + monitors on real thread identity and live counts. Thread identity itself is runtime (monitored only). Reconfiguration ('every configuration'): theorems C04_reconfiguration_* over Reconf.v (no history of config steps changes a resource; the limit in force is the last accepted one) tied by K-conf (config_from_dict/yaml/json step by step vs Reconf.kconf) and by reconfiguration histories in K-sched judged against the declared attributes.", "6 C04"),
 "C05": ("proof", "Theorems C05_*: a sequential node in flight is the only node in flight and only drain waits are enabled; it is dispatched only with nothing in flight. K-sched + interval-overlap monitor on real ENTER/EXIT. Reconfiguration: C05_priority_only_reconfiguration_keeps_sequential / C05_reconfiguration_entry_applied over Reconf.v, tied by K-conf and K-sched reconfiguration histories.", "6 C05"),
 "C06": ("proof", "Theorems C06_*: the scheduler's candidate set equals the spec's ready set and every start/skip is a maximum of the compound-priority table attached to the executed graph. K-sched + shadow-ready-set monitor. 'finished' = observed by the scheduler (D-c). Compound-priority tables of composed DAGs are checked against Priority.v (K-compose).", "6 C06"),
 "C08": ("proof", "Partial: C08_block_only_when_justified_partial proved for all runs with the F9 exception made explicit, unconditional for single-kind DAGs; C08_..._refuted is the machine-checked witness of the exception, replayed on the implementation as KNOWN-FINDING F9. K-sched + monitor at every wait. Reconfiguration: C08_reconfiguration_without_limit_keeps_it (Reconf.v), K-conf, and the declared max_concurrency in K-sched.", "6 C08"),
 "C09": ("proof", "Theorems C09_*: strictly decreasing measure, run length <= 32|nodes|+6, progress, never two empty waits in a row, finished => everything ran. K-sched + watchdog. OS-level liveness of threads / event loop outside the model.", "6 C09"),
 "C01": ("proof", "Theorems C01_* (for every value type, node table, configuration, schedule): every scheduler run computes the denotation of the node table; all schedules agree; the denotation equals sequential plain evaluation in any dependency order; scheduling parameters do not occur in the denotation. The build half (node table = what the describing function denotes) is tied by K-value: DAG value vs plain-Python evaluation of the same generated describing function vs denotation of the table the implementation built, under random configurations (dict/JSON/YAML), both flavours, controlled schedules.", "6 C01"),
 "C07": ("proof", "Theorems C07_*: cprio = own + sum over any duplicate-free enumeration of the reachable set; independence from container iteration order (hash seed); unique run with max_concurrency=1 and injective priorities; machine-checked refutation of the pinned commit's algorithm (F1, fixed). K-graph: implementation table vs model on random non-tree DAGs, executor sub-graph tables, sub-processes under several PYTHONHASHSEEDs (tables and execution order). Reconfiguration frame theorems over Reconf.v (K-conf); compound-priority tables of DAGs derived by compose() (K-compose).", "6 C07"),
 "C10": ("proof", "Theorems C10_*: the flag test's outcome is the truthiness of the denotation of the referenced value with its key path; falsy => result None, never started; truthy => started exactly once; dependents run. Nested-DAG propagation is tied by K-value (flag forms x values, nested depth 3) against the plain reference; exception F13 is a known finding.", "6 C10"),
 "C11": ("proof", "Theorems C11_* over History.v (set-level model of what an instance keeps between operations): for every sequence of call / setup(selection) / executor operations a setup node executed by a successful operation is never executed again; setup(target) executes only setup ancestors of the targets; copies are independent. K-hist: random histories on real instances incl. deepcopy, entry counters per (instance, setup node), executed sets per operation vs the model.", "6 C11"),
 "C12": ("proof", "Theorems C12_*: exact characterisation of the selected node set by reachability in the full graph (under the property's hypothesis on excluded nodes), ValueError iff conditions, subset/NoDup. K-graph: executor graphs for random (R, X, T) through id / tag / reference aliases incl. error paths, executed node sets.", "6 C12"),
 "C13": ("proof", "Theorems C13_*: flag off => no debug node in executor / call / setup graphs; flag on => call runs all, pulled debug nodes have all inputs in the executed graph; values of non-debug nodes identical in both settings (SelectSpec.debug_does_not_change_values). K-graph under both settings.", "6 C13"),
 "C15": ("proof", "Theorem C15_den_precompute: replacing nodes by their already-computed values (the only state an instance keeps: setup results) changes no value and no failure, for every table / configuration; with C11 (what is kept) this is 'the k-th call equals the call on a fresh instance'. K-hist: histories with different argument tuples, omitted defaults, executors, failing calls and failing executor runs followed by a re-run, then one more call compared with a freshly built DAG. Argument binding: C15_call_after_setup_same_as_fresh / C15_binding_frame over Args.v (the map handed to the scheduler reads only the DAG-level map, the parameters and the arguments), tied by K-bind on every generated call.", "6 C15"),
 "C16": ("proof", "PARTIAL. Theorems C16_* over an interleaving model of the build lock and the 'am I describing?' decision: for every set of thread programs and every interleaving each thread observes exactly what it observes alone (builds, calls of finished DAGs, calls of decorated functions outside a DAG); DAGs built concurrently are identical to sequential builds; at most one builder; the pinned commit's predicate is refuted by a machine-checked witness (F8, fixed). Tied by K-thread: real threads stepped by barriers through random interleavings vs the model, and concurrent calls of one DAG with distinct arguments. Atomic actions are Python-level calls; CPython-internal data races are outside.", "6 C16"),
 "C17": ("proof", "PARTIAL. Theorems C17_*: any two complete runs of the scheduler (both flavours run the same coroutine; no flavour parameter in the model) store the same values and start / skip the same nodes; with only async-thread nodes no scheduler step blocks the loop thread, in general only main-thread nodes and waits on thread-resource nodes do. Tied by K-async (both flavours of every generated function: value, executed nodes; gathered concurrent awaits) and a liveness monitor (a node completing only after a sibling coroutine ran). The event loop is not modelled.", "6 C17"),
 "C18": ("proof", "Theorems C18_*: a restart never executes a node whose result is in the file; same selection => nothing runs; cache_deps_of=D => file = results minus D, restart executes exactly D. Value equality via C15_den_precompute. K-hist: caching runs / restarts incl. cache_deps_of, executed sets and unpickled key sets. pickle fidelity trusted.", "6 C18"),
 "C19": ("proof", "Theorems C19_*: (embedding theorem) every node of the composed DAG denotes what it denotes in the original pipeline with the input nodes overridden; the composed node set is exactly inputs + outputs + what the outputs need, never behind an input; ValueError iff input-ancestor-of-input or an undeclared required DAG parameter is needed. compose() itself is tied on every run: node set / errors vs Compose.v, embed_check evaluated in coqc on the composed and original tables, the composed DAG's value vs a plain-Python evaluation with the input statements overridden, and the original DAG's value and table before / after composing.", "6 C19"),
 "C20": ("proof", "Theorems C20_* (embedding theorem): if the inner DAG with its parameters bound is embedded in the outer DAG's table through the id prefix, every inner node denotes in the outer DAG what it denotes in the inner one (same value, same failures), for every value type and any depth; with C01 this is inlining. The embedding relation itself is evaluated in coqc (IsoCheck.embed_check) on the real inner and outer tables of every generated nesting (depth <= 3, all signatures / call forms / return shapes), plus K-value against the plain-Python reference. F10 / F12 are known findings (loud build-time refusals). Argument binding (explicit argument wins, omitted keeps the default): C20_explicit_argument_wins / C20_omitted_argument_keeps_default over Args.v, tied by K-bind.", "6 C20"),
 "C14": ("proof", "Theorems C14_*: the run ends with the first inspected failure, nothing accepted afterwards, no transitive dependent of a failed/unfinished node ever started, removals always target graph roots (no internal error). Exception wrapping (node id, location, cause) checked by the monitor on every failing run.", "6 C14"),
}
NOTES = {
 "C16": "trusted: Coq kernel + vm_compute; Threads.v (atomic Python-level actions, GIL); harness turn-taking barriers; setup nodes run before sharing a DAG between threads.",
 "C17": "trusted: as C01; asyncio event loop semantics not modelled (liveness monitored on real loops).",
 "C19": "trusted: as C20; alias resolution (unique alias, Ellipsis) exercised through node ids only in the generated cases.",
 "C20": "trusted: as C01 plus Iso.v / IsoCheck.v (the executable embed_check is proved sound for the Prop embeds: IsoCheckFacts.embed_check_sound) and Args.v; prefix renaming supplied by the harness from the ids tawazi produced.",
 "C11": "trusted: Coq kernel + vm_compute; History.v / Select.v models; harness; setup node functions pure. Axioms: none.",
 "C15": "trusted: as C01 plus History.v and Args.v; mutation of shared constants by impure node functions is outside.",
 "C18": "trusted: as C11; pickle round-trips values faithfully.",
 "C01": "trusted: Coq kernel + vm_compute; hand-written models (Sched.v, Dataflow.v, Terms.v); harness (generated describing functions, plain-Python reference, canonicalisation); node table read from the implementation (layering); pure node functions. Axioms: none.",
 "C07": "trusted: Coq kernel + vm_compute; Priority.v / Graph.v models; networkx descendants as modelled by the fuelled closure (proved equal to reachability); harness. Axioms: none.",
 "C10": "trusted: as C01. Python truthiness / __getitem__ modelled abstractly (truthy, index).",
 "C12": "trusted: Coq kernel + vm_compute; Select.v / Graph.v models of make_subgraph / networkx dfs_tree, ancestors, subgraph; harness; alias resolution model. Axioms: none.",
 "C13": "trusted: as C12; RUN_DEBUG_NODES read from tawazi.cfg at executor construction / call time.",
}
TECH = "Coq proof over an executable scheduler LTS + trace-acceptance correspondence (vm_compute in coqc) against controlled runs of the real code"

TECHS = {
 "C16": "Coq proof over an interleaving model of the build lock + barrier-stepped real threads compared with the model",
 "C17": "Coq proof (runs are flavour-independent; where the loop can block) + both-flavour differential correspondence and loop-liveness monitor",
 "C19": "Coq proof (embedding preserves denotations; characterisation of the composed node set) + the embedding relation and node set evaluated in coqc on the tables compose() builds + differential correspondence against plain Python with overrides",
 "C20": "Coq proof (embedding of node tables preserves denotations) + the embedding relation evaluated in coqc on the tables tawazi builds for nested DAGs + differential correspondence against plain Python",
 "C11": "Coq proof over a set-level history model composed with the scheduler theorems + history correspondence on real DAG instances",
 "C15": "Coq proof (pre-computed values do not change the denotation) + history correspondence against freshly built DAGs",
 "C18": "Coq proof over the history model (cache keys, restart set) + history correspondence with real cache files",
 "C01": "Coq proof (denotation = every schedule = sequential evaluation) + differential correspondence of generated describing functions (tawazi vs plain Python vs model evaluated in coqc)",
 "C07": "Coq proof over a model of assign_compound_priority + table correspondence under several hash seeds",
 "C10": "Coq proof over the valued scheduler LTS + differential correspondence over all flag forms",
 "C12": "Coq proof over a model of make_subgraph (closure = reachability) + node-set correspondence (vm_compute in coqc)",
 "C13": "Coq proof over the model of debug-node selection + node-set correspondence under both flag settings",
}


def main():
    checks = []
    for i in ids:
        if i not in CLAIMED: continue
        cat, text, ref = CLAIMED[i]
        checks.append(dict(property_id=i, quick_cmd="./check %s --tier quick" % i, thorough_cmd="./check %s --tier thorough" % i,
                           evidence_file="/verif/evidence/%s.json" % i, replay_cmd_template="./check %s --replay {path}" % i,
                           engine="coq+correspondence", level_claimed=dict(category=cat, text=text, design_ref="DESIGN.md section " + ref),
                           level_note=NOTES.get(i, NOTE_SCHED), technique=TECHS.get(i, TECH)))
    m = dict(version=1,
             setup_cmd="cd /verif/coq && coq_makefile -f _CoqProject -o Makefile && make -j16",
             hooks=dict(guard="TAWAZI_VERIF_HARNESS", enable="no source hooks: the harness process (never the test suite) rebinds module globals of tawazi._dag.helpers, DiGraphEx.remove_root_node and ExecNode.execute at run time",
                        baseline_off_cmd="cd /repo && /venv/bin/python -m pytest -ra -q -p no:cacheprovider --timeout=900 --continue-on-collection-errors", source_commits=[], add_only=True),
             engines=[dict(name="coq+correspondence", path="/verif/check", serves_properties=sorted(CLAIMED), kind_free_text="Coq 8.16 development in /verif/coq (model + theorems), Python harness in /verif/harness driving /repo's tawazi and evaluating the model on the same cases inside coqc")],
             checks=checks,
             notes="see DESIGN.md; known findings in known_findings.json",
             not_applicable=[dict(property_id=i, reason="check not built yet (work in progress, see DESIGN.md section 11)") for i in ids if i not in CLAIMED])
    json.dump(m, open(os.path.join(V, "MANIFEST.json"), "w"), indent=1)
main()
