#!/usr/bin/env python3
"""Confirm a seeded change (patch + demo) in a scratch worktree and run the checks against it.

usage: seed_eval.py <seed_dir> <property> [--checks C04,C08] [--keep-name NAME] [--no-tests]
 seed_dir contains patch.diff, demo.py, notes.md.  Everything happens in a scratch worktree of /repo
 under /tmp which is removed afterwards; /repo itself is never modified."""
import argparse
import json
import os
import shutil
import subprocess
import sys
import time

VERIF = os.path.dirname(os.path.dirname(os.path.abspath(__file__)))
PY = "/venv/bin/python"


def sh(cmd, cwd=None, env=None, timeout=1800):
    p = subprocess.run(cmd, shell=True, cwd=cwd, env=env, capture_output=True, text=True, timeout=timeout)
    return p.returncode, (p.stdout + p.stderr)


def main():
    ap = argparse.ArgumentParser()
    ap.add_argument("seed_dir")
    ap.add_argument("prop")
    ap.add_argument("--checks", default=None)
    ap.add_argument("--keep-name", default=None)
    ap.add_argument("--no-tests", action="store_true")
    ap.add_argument("--tier", default="quick")
    a = ap.parse_args()
    sd = os.path.abspath(a.seed_dir)
    wt = "/tmp/wt_confirm_%d" % os.getpid()
    out = dict(seed_dir=sd, property=a.prop, ran=[])
    sh("git -C /repo worktree add -q --detach %s HEAD" % wt)
    try:
        env = dict(os.environ, PYTHONDONTWRITEBYTECODE="1")
        rc, o = sh("%s %s/demo.py" % (PY, sd), cwd=wt, env=env, timeout=300)
        out["demo_clean_rc"] = rc
        out["demo_clean_tail"] = o[-400:]
        rc, o = sh("git apply --3way %s/patch.diff || git apply %s/patch.diff" % (sd, sd), cwd=wt)
        out["apply_rc"] = rc
        if rc != 0:
            out["apply_err"] = o[-600:]
            print(json.dumps(out, indent=1))
            return 1
        rc, o = sh("git diff HEAD", cwd=wt)
        out["effective_patch"] = o
        rc, o = sh("%s %s/demo.py" % (PY, sd), cwd=wt, env=env, timeout=300)
        out["demo_patched_rc"] = rc
        out["demo_patched_tail"] = o[-500:]
        if not a.no_tests:
            rc, o = sh("%s -m pytest -q -p no:cacheprovider --timeout=900 2>&1 | tail -5" % PY, cwd=wt, env=env, timeout=1200)
            out["tests_tail"] = o[-400:]
            out["tests_pass"] = (" failed" not in o) and ("passed" in o)
        checks = (a.checks.split(",") if a.checks else [a.prop])
        out["checks"] = {}
        for c in checks:
            t0 = time.time()
            cenv = dict(os.environ, PYTHONPATH="%s:%s" % (wt, VERIF), TAWAZI_REPO=wt, PYTHONHASHSEED="0", PYTHONDONTWRITEBYTECODE="1", VERIF_TIER=a.tier, VERIF_BUILD_DIR=os.path.join(VERIF, "build", "seed_%d" % os.getpid()))
            rc, o = sh("%s -m harness.main %s --no-proof --tier %s" % (PY, c, a.tier), cwd=VERIF, env=cenv, timeout=3000)
            lines = [l for l in o.splitlines() if l.startswith("VIOLATION") or l.startswith("  ") or l.startswith("OK") or l.startswith("KNOWN")]
            out["checks"][c] = dict(rc=rc, wall=round(time.time() - t0, 1), lines=lines[:12])
        if a.keep_name:
            dst = os.path.join(VERIF, "seeded", a.keep_name)
            os.makedirs(dst, exist_ok=True)
            with open(os.path.join(dst, "patch.diff"), "w") as f:
                f.write(out["effective_patch"])
            shutil.copy(os.path.join(sd, "demo.py"), os.path.join(dst, "demo.py"))
            if os.path.exists(os.path.join(sd, "notes.md")):
                shutil.copy(os.path.join(sd, "notes.md"), os.path.join(dst, "notes.md"))
            meta = dict(property=a.prop, origin="independent sub-agent given only the property text and a scratch worktree",
                        needs_to_manifest=open(os.path.join(sd, "notes.md")).read()[:1500] if os.path.exists(os.path.join(sd, "notes.md")) else "",
                        confirmed=dict(demo_exit_clean_tree=out["demo_clean_rc"], demo_exit_changed_tree=out["demo_patched_rc"], test_suite_passes_on_changed_tree=out.get("tests_pass"),
                                       base_commit=subprocess.run("git -C /repo rev-parse --short HEAD", shell=True, capture_output=True, text=True).stdout.strip()),
                        what_i_ran=["cd <scratch worktree> && /venv/bin/python demo.py (clean, then with patch.diff applied)", "/venv/bin/python -m pytest -q -p no:cacheprovider --timeout=900 on the changed tree",
                                    "./check <property> with TAWAZI_REPO pointing at the changed tree (equivalent to git -C /repo apply; checks; git -C /repo checkout -- .)"],
                        detection={c: dict(detected=any(l.startswith("VIOLATION") for l in v["lines"]), lines=v["lines"][:6]) for c, v in out["checks"].items()})
            json.dump(meta, open(os.path.join(dst, "meta.json"), "w"), indent=1)
        out.pop("effective_patch", None)
        print(json.dumps(out, indent=1))
        return 0
    finally:
        sh("git -C /repo worktree remove --force %s" % wt)
        shutil.rmtree(wt, ignore_errors=True)


if __name__ == "__main__":
    sys.exit(main())
