#!/usr/bin/env python3
"""Re-run every stored seeded change against the current checks: for each /verif/seeded/<name>/ apply patch.diff
to a scratch worktree of /repo, run the property's quick check (correspondence + monitors; the proof stage does
not depend on /repo) with TAWAZI_REPO pointing there, and report which seeds are still detected.
usage: seed_regress.py [-j N] [name-prefix ...]"""
import glob
import json
import os
import subprocess
import sys
from concurrent.futures import ThreadPoolExecutor

VERIF = os.path.dirname(os.path.dirname(os.path.abspath(__file__)))
PY = "/venv/bin/python"


def one(d):
    name = os.path.basename(d.rstrip("/"))
    meta = json.load(open(os.path.join(d, "meta.json")))
    prop = meta["property"]
    wt = "/tmp/wt_regress_%s_%d" % (name, os.getpid())
    subprocess.run("git -C /repo worktree add -q --detach %s HEAD" % wt, shell=True, check=True)
    try:
        r = subprocess.run("git apply %s/patch.diff" % d, shell=True, cwd=wt, capture_output=True, text=True)
        if r.returncode != 0:
            return name, prop, "apply-failed", r.stderr[-200:]
        env = dict(os.environ, PYTHONPATH="%s:%s" % (wt, VERIF), TAWAZI_REPO=wt, PYTHONHASHSEED="0", PYTHONDONTWRITEBYTECODE="1", VERIF_BUILD_DIR=os.path.join(VERIF, "build", "regress_" + name))
        checks = [prop] + [c for c in meta.get("also_checks", [])]
        out = []
        det = False
        for c in checks:
            p = subprocess.run("%s -m harness.main %s --no-proof" % (PY, c), shell=True, cwd=VERIF, env=env, capture_output=True, text=True, timeout=3000)
            lines = [l for l in p.stdout.splitlines() if l.startswith("VIOLATION")]
            det = det or bool(lines)
            nxt = [l for l in p.stdout.splitlines() if l.startswith("  ")]
            out.append("%s: %d VIOLATION lines; %s" % (c, len(lines), (nxt[0].strip()[:140] if nxt else "")))
        return name, prop, "detected" if det else "MISSED", " | ".join(out)
    finally:
        subprocess.run("git -C /repo worktree remove --force %s" % wt, shell=True)
        subprocess.run("rm -rf %s" % os.path.join(VERIF, "build", "regress_" + name), shell=True)


def main():
    args = sys.argv[1:]
    jobs = 4
    if args[:1] == ["-j"]:
        jobs = int(args[1])
        args = args[2:]
    dirs = sorted(glob.glob(os.path.join(VERIF, "seeded", "*", "")))
    if args:
        dirs = [d for d in dirs if any(os.path.basename(d.rstrip("/")).startswith(a) for a in args)]
    missed = 0
    with ThreadPoolExecutor(max_workers=jobs) as ex:
        for name, prop, status, info in ex.map(one, dirs):
            print("%-8s %-4s %-12s %s" % (name, prop, status, info), flush=True)
            missed += status != "detected"
    print("seeds: %d, not detected: %d" % (len(dirs), missed))
    return 1 if missed else 0


if __name__ == "__main__":
    sys.exit(main())
